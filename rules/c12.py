"""C12 - DCE/RPC and endpoint-mapper wire codecs are inverse; decoders terminate."""

from __future__ import annotations

import ast
import typing as t

from sa import layout
from sa.intervals import World
from sa.load import AnalysisError, Cls, Func, Repo, body_nodes, unparse
from sa.loops import LoopChecker
from sa.report import Check, Site
from sa.sym import Lin
from sa.symeval import Unsupported

from . import codecs
from .c11 import _cond_key
from .reftab import F, INT, LEN, LIT, NESTED, PAD, RAW, REPEAT, STR, UUID, cat, first_difference, sigs_of
from .reftab import ENCLEN

PLAIN = [
    "_rpc._pdu.DataRep",
    "_rpc._pdu.PDUHeader",
    "_rpc._pdu.SecTrailer",
    "_rpc._bind.SyntaxId",
    "_rpc._bind.ContextElement",
    "_rpc._bind.ContextResult",
    "_rpc._verification.Command",
    "_rpc._verification.VerificationTrailer",
    "_epm.Floor",
    "_epm.EptMap",
    "_epm.EptMapResult",
]
PDUS = [
    "_rpc._bind.Bind",
    "_rpc._bind.BindAck",
    "_rpc._bind.BindNak",
    "_rpc._bind.AlterContext",
    "_rpc._bind.AlterContextResponse",
    "_rpc._request.Request",
    "_rpc._request.Response",
    "_rpc._pdu.Fault",
]
COMMANDS = ["_rpc._verification.CommandBitmask", "_rpc._verification.CommandPContext", "_rpc._verification.CommandHeader2"]
FLOORS = ["_epm.TCPFloor", "_epm.IPFloor", "_epm.RPCConnectionOrientedFloor", "_epm.UUIDFloor"]

HDR = NESTED("self.header", "PDUHeader")


def tower_ref(over: str, elem: str) -> t.List[t.Any]:
    """twr_t in NDR64: conformant max count (8) | tower_length (4) | floor count (2) floors | align(8)."""
    return []


def reference() -> t.Dict[str, t.Dict[t.FrozenSet[t.Tuple[str, bool]], t.List[t.Any]]]:
    """C706 chapter 12 (PDU layouts), chapter 13 (sec trailer), appendix L (towers), MS-RPCE 2.2.2.13 /
    2.2.1.2.5, NDR64 alignment rules.  Bodies are given without the optional trailing security trailer."""
    ctx_elem = cat(
        INT(F("self.context_id"), 2),
        INT(LEN("self.transfer_syntaxes"), 2),  # n_transfer_syn (u_int8) + reserved, as one LE short
        NESTED("self.abstract_syntax", "SyntaxId"),
        REPEAT("self.transfer_syntaxes", LEN("self.transfer_syntaxes"), NESTED("self.transfer_syntaxes[*]", "SyntaxId")),
    )
    bind_body = cat(
        HDR,
        INT(F("self.max_xmit_frag"), 2),
        INT(F("self.max_recv_frag"), 2),
        INT(F("self.assoc_group"), 4),
        INT(LEN("self.contexts"), 4),  # n_context_elem (u_int8) + 3 reserved bytes
        REPEAT("self.contexts", LEN("self.contexts"), NESTED("self.contexts[*]", "ContextElement")),
    )
    sa = ENCLEN("self.sec_addr", "utf-8") + 1
    ack_tail = cat(
        INT(LEN("self.results"), 4),  # n_results (u_int8) + 3 reserved bytes
        REPEAT("self.results", LEN("self.results"), NESTED("self.results[*]", "ContextResult")),
    )
    ack_head = cat(HDR, INT(F("self.max_xmit_frag"), 2), INT(F("self.max_recv_frag"), 2), INT(F("self.assoc_group"), 4))
    bt = "self.tower"
    floors = lambda over: cat(  # noqa: E731
        INT(LEN(over), 2),
        REPEAT(over, LEN(over), NESTED(f"{over}[*]", "Floor")),
    )
    btl = Lin.atom(("len", "b_tower"))
    del bt, btl
    return {
        "_rpc._pdu.DataRep": {
            frozenset(): cat(
                INT(Lin.atom(("bitor", Lin.atom(("field", "self.character")), Lin.atom(("lshift", Lin.atom(("field", "self.byte_order")), Lin(4))))), 1),
                INT(F("self.floating_point"), 1),
                LIT("0000"),
            )
        },
        "_rpc._pdu.PDUHeader": {
            frozenset(): cat(
                INT(F("self.version"), 1),
                INT(F("self.version_minor"), 1),
                INT(F("self.packet_type"), 1),
                INT(F("self.packet_flags"), 1),
                NESTED("self.data_rep", "DataRep"),
                INT(F("self.frag_len"), 2),
                INT(F("self.auth_len"), 2),
                INT(F("self.call_id"), 4),
            )
        },
        "_rpc._pdu.SecTrailer": {
            frozenset(): cat(
                INT(F("self.type"), 1),
                INT(F("self.level"), 1),
                INT(F("self.pad_length"), 1),
                LIT("00"),
                INT(F("self.context_id"), 4),
                RAW("self.auth_value"),
            )
        },
        "_rpc._bind.SyntaxId": {frozenset(): cat(UUID("self.uuid"), INT(F("self.version"), 2), INT(F("self.version_minor"), 2))},
        "_rpc._bind.ContextElement": {frozenset(): ctx_elem},
        "_rpc._bind.ContextResult": {
            frozenset(): cat(INT(F("self.result"), 2), INT(F("self.reason"), 2), UUID("self.syntax"), INT(F("self.syntax_version"), 4))
        },
        "_rpc._bind.Bind": {frozenset(): bind_body},
        "_rpc._bind.BindAck": {
            frozenset({("self.sec_addr", False)}): cat(ack_head, INT(0, 2), PAD(4, Lin(2)), ack_tail),
            frozenset({("self.sec_addr", True)}): cat(ack_head, INT(sa, 2), STR("self.sec_addr", "utf-8"), LIT("00"), PAD(4, sa + 2), ack_tail),
        },
        "_rpc._request.Request": {
            frozenset({("self.obj", False)}): cat(HDR, INT(F("self.alloc_hint"), 4), INT(F("self.context_id"), 2), INT(F("self.opnum"), 2), RAW("self.stub_data")),
            frozenset({("self.obj", True)}): cat(
                HDR, INT(F("self.alloc_hint"), 4), INT(F("self.context_id"), 2), INT(F("self.opnum"), 2), UUID("self.obj"), RAW("self.stub_data")
            ),
        },
        "_rpc._request.Response": {
            frozenset(): cat(HDR, INT(F("self.alloc_hint"), 4), INT(F("self.context_id"), 2), INT(F("self.cancel_count"), 1), LIT("00"), RAW("self.stub_data"))
        },
        "_rpc._pdu.Fault": {
            frozenset(): cat(
                HDR,
                INT(F("self.alloc_hint"), 4),
                INT(F("self.context_id"), 2),
                INT(F("self.cancel_count"), 1),
                INT(F("self.flags"), 1),
                INT(F("self.status"), 4),
                LIT("00000000"),
                RAW("self.stub_data"),
            )
        },
        "_rpc._verification.Command": {
            frozenset(): cat(
                INT(Lin.atom(("bitor", Lin.atom(("field", "self.command")), Lin.atom(("field", "self.flags")))), 2),
                INT(LEN("self.value"), 2),
                RAW("self.value"),
            )
        },
        "_rpc._verification.VerificationTrailer": {
            frozenset(): cat(LIT("8ae3137102f43671"), REPEAT("self.commands", LEN("self.commands"), NESTED("self.commands[*]", "Command")))
        },
        "_epm.Floor": {
            frozenset(): cat(INT(LEN("self.lhs") + 1, 2), INT(F("self.protocol"), 1), RAW("self.lhs"), INT(LEN("self.rhs"), 2), RAW("self.rhs"))
        },
    }


def _strip_trailer(sigs: t.List[t.Any], conds: t.List[t.Tuple[t.Any, bool]]) -> t.Tuple[t.List[t.Any], t.Optional[str]]:
    has = any(c.info.get("truthy") == "self.sec_trailer" and pol for c, pol in conds)
    tr = ("nested", "self.sec_trailer", "SecTrailer")
    if has:
        if not sigs or sigs[-1] != tr:
            return sigs, "the security trailer is not the last thing written"
        return sigs[:-1], None
    if tr in sigs:
        return sigs, "a security trailer is written on a path where it is absent"
    return sigs, None


def run(repo: Repo, chk: Check) -> None:
    chk.scope_decides = (
        "O1 writer table = reader table for the 26 binary codecs of _rpc and _epm (field order, widths, byte order, bit fields, "
        "length/count prefixes, padding formulas as canonical residues, per-element advance of repeated elements, PDU framing), "
        "symbolically in all values and lengths, and no pack/unpack function writes a module or class level container (codecs have no memory); O2 writer tables = reference tables transcribed from C706/MS-RPCE; "
        "O3 every decoder loop carries a termination certificate bounded by a <= 2 byte count or by the input size; "
        "O4 registry completeness, open enum members keep their integer value, the verification trailer loop ends exactly on the END bit."
    )
    chk.scope_not = "'work proportional to length' as a measured quantity; codec library semantics (int.to_bytes/from_bytes, slicing)."
    chk.trusted = ["Python int.to_bytes/from_bytes/slicing/bytes.join semantics", "reference tables in rules/c12.py transcribed from C706 ch.12-13, app. L and MS-RPCE"]
    try:
        for q in PLAIN:
            codecs.plain(repo, chk, "O1", q)
        for q in PDUS:
            codecs.pdu_body(repo, chk, "O1", q)
        for q in COMMANDS:
            codecs.delegate(repo, chk, "O1", q, "_rpc._verification.Command", ("value",), ("command", "flags"))
        for q in FLOORS:
            codecs.delegate(repo, chk, "O1", q, "_epm.Floor", ("lhs", "rhs"), ("protocol",))
        framing(repo, chk, "O1")
        _reference(repo, chk)
        towers_reference(repo, chk, "O2")
    except Unsupported as e:
        raise AnalysisError(f"codec left the idiom table: {e}")
    decoders_bounded(repo, chk, "O3", ["_rpc._pdu", "_rpc._bind", "_rpc._request", "_rpc._verification", "_epm"])
    stateless_codecs(repo, chk, "O1", ["_rpc._pdu", "_rpc._bind", "_rpc._request", "_rpc._verification", "_epm"])
    registries(repo, chk, "O4")
    open_enums(repo, chk, "O4")
    vt_end_flag(repo, chk, "O4")
    chk.require_min("codec tables", 26)
    chk.require_min("reference tables", 18)
    chk.require_min("decoder loops", 6)


# ------------------------------------------------------------------ O1 framing
def framing(repo: Repo, chk: Check, rule: str) -> None:
    """PDU.unpack: header = first 16 bytes = size(PDUHeader); body = [16:frag_len]; trailer = last auth_len + 8
    bytes of that, 8 = fixed part of SecTrailer; dispatch on header.packet_type."""
    f = repo.method("_rpc._pdu.PDU", "unpack")
    chk.analysed(f)
    sizes = codecs.sizes_of(repo)
    hsz = sizes.size(repo.cls("_rpc._pdu.PDUHeader"))
    tsz = sizes.size(repo.cls("_rpc._pdu.SecTrailer"))
    fixed_tr = tsz - Lin.atom(("len", "self.auth_value")) if tsz is not None else None
    paths = layout.reader_paths(repo, f)
    src = f.params[1]
    end = Lin.atom(("end", src))
    for p in paths:
        from .c11 import implied

        with_tr = any("auth_len" in c.desc and pol for c, pol in implied(p.conds))
        hdr = [r for r in p.reads if r.kind == "nested" and r.a["cls"].name == "PDUHeader"]
        ok = bool(hdr) and hdr[0].lo == 0
        chk.ob(rule, Site.of(f, hdr[0].node if hdr else None, None if hdr else "PDU.unpack: header"), ok, "header decoded from offset 0" if ok else "PDU header is not decoded from offset 0")
        if not hdr:
            continue
        h = f"<r{hdr[0].rid}>"
        frag = Lin.atom(("field", f"{h}.frag_len"))
        auth = Lin.atom(("field", f"{h}.auth_len"))
        call = [c for c in layout_calls(repo, f, p) if "_PACKET_TYPE_REGISTRY" in unparse(c.node.func)]
        site = Site.of(f, call[0].node if call else None, None if call else "PDU.unpack: dispatch")
        if not call:
            chk.ob(rule, site, False, "no dispatch through _PACKET_TYPE_REGISTRY on this path")
            continue
        body = call[0].arg(0)
        want_lo = hsz
        want_hi = frag - (auth + fixed_tr) if (with_tr and fixed_tr is not None) else frag
        got = (getattr(body, "lo", None), getattr(body, "hi", None))
        okb = hsz is not None and got[0] == want_lo and got[1] == want_hi
        chk.ob(rule, site, okb, f"body window [{got[0]!r}:{got[1]!r}] " + ("= [size(PDUHeader) : frag_len" + (" - (auth_len + fixed SecTrailer size)]" if with_tr else "]")) if okb else f"body window [{got[0]!r}:{got[1]!r}], expected [{want_lo!r}:{want_hi!r}]")
        if with_tr:
            tr = [r for r in p.reads if r.kind == "nested" and r.a["cls"].name == "SecTrailer"]
            okt = bool(tr) and fixed_tr is not None and tr[0].lo == frag - (auth + fixed_tr) and tr[0].hi == frag
            chk.ob(rule, Site.of(f, tr[0].node if tr else None, None if tr else "PDU.unpack: trailer"), okt, "security trailer = last auth_len + 8 bytes of the fragment" if okt else f"security trailer window is [{tr[0].lo!r}:{tr[0].hi!r}]" if tr else "no security trailer decoded although auth_len != 0")
        key = call[0].node.func
        from .util import prov_text

        keytxt = prov_text(f, key.slice, key) if isinstance(key, ast.Subscript) else ""
        okk = keytxt.endswith(".packet_type") and "PDUHeader.unpack(" in keytxt and keytxt.index("PDUHeader.unpack(") == 0
        chk.ob(rule, site, okk, "dispatch on the packet_type of the decoded header" if okk else f"dispatch key is {keytxt}")
        passed = [call[0].arg(1), call[0].arg(2)]
        okp = getattr(passed[0], "rid", None) == hdr[0].rid
        chk.ob(rule, site, okp, "decoded header handed to the body decoder" if okp else f"body decoder receives {passed[0]!r} as header")
    del end


def layout_calls(repo: Repo, f: t.Any, path: layout.ReaderPath) -> t.List[t.Any]:
    """Calls recorded on the interpreter state of a reader path (re-run to get them)."""
    out = []
    for st, o in layout.Interp(repo, f).run(layout.self_state(repo, f)):
        if o.kind == "return" and [(c.desc, p) for c, p in st.conds] == [(c.desc, p) for c, p in path.conds]:
            out = st.calls
    return out


# --------------------------------------------------------------- O2 reference
def _reference(repo: Repo, chk: Check) -> None:
    for q, alts in reference().items():
        cls = repo.cls(q)
        fw = cls.find_method("pack")
        assert fw is not None
        seen = set()
        for p in layout.writer_paths(repo, fw):
            key = frozenset(k for k in _cond_key(p.conds) if k[0] != "self.sec_trailer")
            got, err = _strip_trailer(sigs_of(p.segs), p.conds)
            chk.count("reference tables")
            site = Site.of(fw, construct=f"{cls.name}.pack layout {sorted(key) or 'always'}")
            if err:
                chk.ob("O2", site, False, f"{cls.name}: {err}")
                continue
            if key not in alts:
                chk.ob("O2", site, False, f"{cls.name}.pack has a layout alternative the specification does not have: {sorted(key)}")
                continue
            seen.add(key)
            diff = first_difference(got, alts[key])
            chk.ob("O2", site, diff is None, diff or "writer table equals the reference table")
        for key in alts:
            if key not in seen:
                chk.ob("O2", Site.of(fw, construct=f"{cls.name}.pack alternative {sorted(key)}"), False, f"{cls.name}.pack lacks the layout alternative {sorted(key)} of the specification")


def towers_reference(repo: Repo, chk: Check, rule: str) -> None:
    """NDR64 twr_t: max count (8) | tower_length (4) | tower octets | pad to 8.  For both EptMap.pack and
    EptMapResult.pack the padding after a tower of `n` octets must be (-(n + 4)) mod 8 and the octet string is
    floor count (2) followed by the floors."""
    from sa.sym import mod

    for q in ("_epm.EptMap", "_epm.EptMapResult"):
        cls = repo.cls(q)
        fw = cls.methods["pack"]
        for p in layout.writer_paths(repo, fw):
            chk.count("reference tables")
            segs = p.segs
            if q.endswith("EptMapResult"):
                rep = [s for s in segs if s.kind == "repeat" and s.over == "self.towers" and len(s.body) > 1]
                if not rep:
                    chk.ob(rule, Site.of(fw, construct="EptMapResult.pack: tower array"), False, "no repeated tower structure found in the writer table")
                    continue
                segs = rep[0].body
            # locate: int(len,8) int(len,4) [tower octets] pad
            idx = [i for i, s in enumerate(segs) if s.kind == "int" and s.width == 8 and i + 1 < len(segs) and segs[i + 1].kind == "int" and segs[i + 1].width == 4 and segs[i + 1].value == s.value]
            site = Site.of(fw, construct=f"{cls.name}.pack: tower max count / length / octets / alignment")
            if not idx:
                chk.ob(rule, site, False, "tower is not written as max count (8) + length (4) of the same value")
                continue
            i = idx[-1]
            n = segs[i].value
            octets = []
            j = i + 2
            total = Lin(0)
            while j < len(segs) and not (total == n):
                octets.append(segs[j])
                total = total + segs[j].width
                j += 1
                if len(octets) > 8:
                    break
            pad = segs[j] if j < len(segs) else None
            okn = total == n
            want = mod(-(n + 4), 8)
            okp = pad is not None and pad.kind == "pad" and pad.width == want
            chk.ob(rule, site, okn, "declared tower length = size of the floor count + floors" if okn else f"declared tower length {n!r} is not the size of what follows ({total!r})")
            chk.ob(rule, Site.of(fw, construct=f"{cls.name}.pack: tower alignment padding"), okp, f"padding after the tower is (-(len + 4)) mod 8" if okp else f"padding after the tower is {getattr(pad, 'width', None)!r}, NDR64 requires {want!r} (8 byte alignment after max count(8) + length(4) + octets)")


# ------------------------------------------------------------- O3 decoders
def decoder_funcs(repo: Repo, modules: t.Sequence[str]) -> t.List[t.Any]:
    out = []
    for q, f in sorted(repo.funcs.items()):
        if f.mod.name in modules and f.name in ("unpack", "_unpack", "unpack_response"):
            out.append(f)
    return out


def decoders_bounded(repo: Repo, chk: Check, rule: str, modules: t.Sequence[str], world: t.Optional[World] = None) -> None:
    world = world or World(repo)
    for f in decoder_funcs(repo, modules):
        chk.analysed(f)
        for cert in LoopChecker(world, f).all():
            chk.count("decoder loops")
            site = Site.of(f, cert.node, cert.text)
            if cert.kind is None:
                chk.ob(rule, site, False, f"decoder loop without termination/bounded-work certificate: {cert.why}")
            else:
                chk.ob(rule, site, True, f"{cert.kind}: {cert.why}" + (f" (bound: {cert.bound})" if cert.bound else ""))


# ----------------------------------------------------------- O4 registries
def _plain_attrs(e: ast.AST) -> str:
    """Text of an expression with getattr(x, "name") written as x.name."""

    class G(ast.NodeTransformer):
        def visit_Call(self, node: ast.Call) -> ast.AST:
            self.generic_visit(node)
            if isinstance(node.func, ast.Name) and node.func.id == "getattr" and len(node.args) == 2 and not node.keywords and isinstance(node.args[1], ast.Constant) and isinstance(node.args[1].value, str):
                return ast.copy_location(ast.Attribute(value=node.args[0], attr=node.args[1].value, ctx=ast.Load()), node)
            return node

    import copy as _copy

    return unparse(G().visit(_copy.deepcopy(e)))


def _registry_store(repo: Repo, fn: Func, key: str) -> bool:
    """The decorator's only store is  REG[<key>] = cls._unpack  into one module-level table REG (whatever it is called)
    that some other function of the module reads (the dispatcher)."""
    from sa.normalize import stored_names

    stores = [n for n in ast.walk(fn.node) if isinstance(n, ast.Assign) and any(isinstance(tg, ast.Subscript) for tg in n.targets)]
    if len(stores) != 1 or len(stores[0].targets) != 1:
        return False
    tg = t.cast(ast.Subscript, stores[0].targets[0])
    if not isinstance(tg.value, ast.Name):
        return False
    reg = tg.value.id
    local = set(fn.params)
    for inner in ast.walk(fn.node):
        if isinstance(inner, (ast.FunctionDef, ast.AsyncFunctionDef)):
            local |= stored_names(inner) | {a.arg for a in inner.args.args}
    if reg in local or reg not in fn.mod.consts:
        return False
    cls_param = next((a.arg for inner in ast.walk(fn.node) if isinstance(inner, (ast.FunctionDef, ast.AsyncFunctionDef)) for a in inner.args.args if a.arg == "cls"), None)
    if cls_param is None:
        return False
    if _plain_attrs(tg.slice) != key or _plain_attrs(stores[0].value) != "cls._unpack":
        return False
    readers = [g for g in repo.funcs.values() if g.mod is fn.mod and g is not fn and any(isinstance(n, ast.Name) and n.id == reg and isinstance(n.ctx, ast.Load) for n in ast.walk(g.node))]
    return bool(readers)


def registries(repo: Repo, chk: Check, rule: str) -> None:
    reg = repo.registry("register_pdu")
    by_name = {getattr(k, "name", str(k)): v for k, v in reg.items()}
    need = {"BIND_ACK": "BindAck", "BIND_NAK": "BindNak", "ALTER_CONTEXT_RESP": "AlterContextResponse", "RESPONSE": "Response", "FAULT": "Fault", "BIND": "Bind", "ALTER_CONTEXT": "AlterContext", "REQUEST": "Request"}
    anchor = repo.func("_rpc._pdu.register_pdu")
    for ptype, cname in need.items():
        cls = by_name.get(ptype)
        ok = cls is not None and cls.name == cname and cls.methods.get("_unpack") is not None and cls.find_method("pack") is not None
        chk.count("registry entries")
        chk.ob(rule, Site(anchor.file, anchor.qual, (cls.node.lineno if cls else anchor.node.lineno), f"register_pdu(PacketType.{ptype}) -> {cname}"), ok, "registered with pack and _unpack" if ok else f"PacketType.{ptype} is registered for {cls.name if cls else 'nothing'}, expected {cname}")
    # the decorator must store the class' own _unpack under the given packet type
    ok = _registry_store(repo, anchor, "packet_type")
    chk.ob(rule, Site.of(anchor, construct="register_pdu stores cls._unpack under packet_type"), ok, "" if ok else "register_pdu no longer stores cls._unpack under its packet_type argument")
    for dec, attr in (("register_cmd", "command"), ("register_floor", "protocol")):
        fn = [f for f in repo.funcs.values() if f.name == dec][0]
        ok = _registry_store(repo, fn, f"cls.{attr}.default")
        chk.ob(rule, Site.of(fn, construct=f"{dec} stores cls._unpack under the default of cls.{attr}"), ok, "" if ok else f"{dec} no longer keys the registry by the class' {attr} default")
    cmds = repo.registry("register_cmd")
    floors = repo.registry("register_floor")
    chk.ob(rule, Site.of(anchor, construct="known commands registered"), {c.name for c in cmds.values()} >= {"CommandBitmask", "CommandPContext", "CommandHeader2"}, f"registered: {sorted(c.name for c in cmds.values())}")
    chk.ob(rule, Site.of(anchor, construct="known floors registered"), {c.name for c in floors.values()} >= {"TCPFloor", "IPFloor", "RPCConnectionOrientedFloor", "UUIDFloor"}, f"registered: {sorted(c.name for c in floors.values())}")
    # discriminants of the registered classes: distinct, and the TCP floor is protocol 0x07 (C706 appendix I)
    for group, attr, expect in ((floors, "protocol", {"TCPFloor": 0x07, "IPFloor": 0x09, "RPCConnectionOrientedFloor": 0x0B, "UUIDFloor": 0x0D}), (cmds, "command", {"CommandBitmask": 1, "CommandPContext": 2, "CommandHeader2": 3})):
        for cls in group.values():
            fld = cls.field(attr)
            okf, v = repo.try_fold(fld.default, cls.mod) if fld is not None and fld.default is not None else (False, None)
            val = getattr(v, "value", v)
            ok = okf and val == expect.get(cls.name)
            chk.ob(rule, Site(cls.mod.rel, cls.qual, cls.node.lineno, f"{cls.name}.{attr} discriminant"), ok, f"{attr} = {val}" if ok else f"{cls.name}.{attr} is {val}, the specification says {expect.get(cls.name)}")


# decoders that map a wire value through a *closed* enumeration (no _missing_): a value outside it is a decode error.
# These are the fields for which that is the format's intent today; any other field decoded through a closed
# enumeration turns wire values the codec used to carry into errors.   (decoder, enumeration)
CLOSED_ENUM_SITES = {
    ("_asn1._read_asn1_header", "TagClass"),
    ("_asn1._read_asn1_header", "TypeTagNumber"),
    ("_rpc._bind.ContextResult.unpack", "ContextResultCode"),
    ("_rpc._pdu.DataRep.unpack", "IntegerRep"),
    ("_rpc._pdu.DataRep.unpack", "CharacterRep"),
    ("_rpc._pdu.DataRep.unpack", "FloatingPointRep"),
    ("_rpc._pdu.PDUHeader.unpack", "PacketType"),
    ("_rpc._pdu.SecTrailer.unpack", "SecurityProvider"),
    ("_rpc._pdu.SecTrailer.unpack", "AuthenticationLevel"),
    ("_rpc._verification.CommandHeader2._unpack", "PacketType"),
}


def closed_enums(repo: Repo, chk: Check, rule: str) -> None:
    """Every `E(<value>)` with E an IntEnum / Enum of the package without `_missing_` (Flag classes keep unknown bits),
    in a function of the codec modules, is one of the sites of the table above."""
    n = 0
    for f in repo.funcs.values():
        if not (f.mod.name.startswith("_rpc") or f.mod.name in ("_epm", "_asn1", "_gkdi", "_blob", "_pkcs7")):
            continue
        for c in ast.walk(f.node):
            if not (isinstance(c, ast.Call) and isinstance(c.func, (ast.Name, ast.Attribute)) and len(c.args) == 1 and not c.keywords):
                continue
            try:
                r = repo.resolve(c.func, f.mod)
            except Exception:
                r = None
            if not isinstance(r, Cls) or r.enum_kind() not in ("enum.IntEnum", "enum.Enum"):
                continue
            if isinstance(c.args[0], ast.Constant) or any("_missing_" in k.methods for k in r.mro()):
                continue
            n += 1
            ok = (f.qual, r.name) in CLOSED_ENUM_SITES
            chk.ob(rule, Site.of(f, c), ok, f"{r.name} is closed by design for this field" if ok else f"{f.qual} decodes a wire value through the closed enumeration {r.name} (no _missing_): every value outside its {len(repo.enum_members(r))} members - which the field could carry before - now fails to decode")
    chk.count("closed enumeration decode sites", n)


def open_enums(repo: Repo, chk: Check, rule: str) -> None:
    closed_enums(repo, chk, rule)
    """An IntEnum that synthesises members for unknown wire values must give them that integer value:
    pack() serialises the member with int.to_bytes (F-ENUM-MISSING)."""
    for cls in repo.classes.values():
        m = cls.methods.get("_missing_")
        if m is None or cls.enum_kind() != "enum.IntEnum":
            continue
        chk.analysed(m)
        chk.count("open enums")
        value_param = m.params[1] if len(m.params) > 1 else "value"
        news = [n for n in body_nodes(m.node) if isinstance(n, ast.Call) and unparse(n.func) == "int.__new__"]
        ok = bool(news)
        for n in news:
            if len(n.args) < 2:
                ok = False
            else:
                names = {x.id for x in ast.walk(n.args[1]) if isinstance(x, ast.Name)}
                ok = ok and value_param in names
        site = Site.of(m, news[0] if news else None, None if news else f"{cls.name}._missing_")
        chk.ob(rule, site, ok, "pseudo member carries the wire value" if ok else f"{cls.name}._missing_ builds the pseudo member without its value: int(member) is 0, so to_bytes() encodes an unknown {cls.name} as 0")
    chk.require_min("open enums", 2)


def vt_end_flag(repo: Repo, chk: Check, rule: str) -> None:
    """The command loop must stop exactly at the first command whose END bit is set, whatever other flag
    bits accompany it (finite abstraction: all combinations of the defined flag bits)."""
    f = repo.method("_rpc._verification.VerificationTrailer", "unpack")
    flags_cls = repo.cls("_rpc._verification.CommandFlags")
    members = {k: v for k, v in repo.enum_members(flags_cls).items() if isinstance(v, int) and v}
    end = members.get("SEC_VT_COMMAND_END")
    if end is None:
        raise AnalysisError("CommandFlags.SEC_VT_COMMAND_END vanished")
    loops = [n for n in body_nodes(f.node) if isinstance(n, ast.While)]
    if not loops:
        raise AnalysisError("VerificationTrailer.unpack: command loop vanished")
    brk = [n for n in ast.walk(loops[0]) if isinstance(n, ast.If) and any(isinstance(x, ast.Break) for x in n.body)]
    site = Site.of(f, brk[0].test if brk else loops[0], None if brk else "command loop exit")
    if not brk:
        chk.ob(rule, site, False, "the command loop has no break on the END flag")
        return
    test = brk[0].test
    flag_exprs = [n for n in ast.walk(test) if isinstance(n, ast.Attribute) and n.attr == "flags"]
    if not flag_exprs:
        chk.ob(rule, site, False, f"loop exit {unparse(test)} does not test the command flags")
        return
    bits = sorted(members.values())
    table = []
    ok = True
    for mask in range(1 << len(bits)):
        val = 0
        for i, b in enumerate(bits):
            if mask >> i & 1:
                val |= b

        class Sub(ast.NodeTransformer):
            def visit_Attribute(self, node: ast.Attribute) -> ast.AST:
                if node.attr == "flags":
                    return ast.copy_location(ast.Constant(value=val), node)
                return self.generic_visit(node)

        e2 = Sub().visit(ast.parse(unparse(test), mode="eval").body)
        okf, res = repo.try_fold(ast.fix_missing_locations(e2), f.mod)
        if not okf:
            chk.ob(rule, site, False, f"loop exit {unparse(test)} is not a foldable predicate of the flags")
            return
        res = bool(getattr(res, "value", res))
        table.append((hex(val), res))
        if res != bool(val & end):
            ok = False
    chk.table("VT loop exit truth table (flags -> exit)", table)
    chk.ob(rule, site, ok, "exit <=> END bit set, for all flag combinations" if ok else f"loop exit {unparse(test)} disagrees with 'END bit set' on {[t_ for t_ in table if t_[1] != bool(int(t_[0], 16) & end)]}")


MUTATORS = ("append", "extend", "add", "update", "setdefault", "pop", "popitem", "clear", "insert", "remove", "discard", "__setitem__", "move_to_end")


def stateless_codecs(repo: Repo, chk: Check, rule: str, modules: t.Sequence[str]) -> None:
    """A pack / unpack function is a function of its argument alone: no module or class level container that a codec
    function also writes (a memo keyed by part of the input answers a later, different input with an earlier result).
    Registries filled by decorators at import time are not written from codec functions and stay legal."""
    n = 0
    for q, f in sorted(repo.funcs.items()):
        if f.mod.name not in modules or "pack" not in f.name:
            continue
        n += 1
        chk.analysed(f)
        for x in body_nodes(f.node):
            tgt: t.Optional[ast.expr] = None
            if isinstance(x, (ast.Assign, ast.AugAssign)):
                for tg in x.targets if isinstance(x, ast.Assign) else [x.target]:
                    if isinstance(tg, ast.Subscript):
                        tgt = tg.value
            elif isinstance(x, ast.Call) and isinstance(x.func, ast.Attribute) and x.func.attr in MUTATORS:
                tgt = x.func.value
            elif isinstance(x, ast.Global):
                chk.ob(rule, Site.of(f, x, "global " + ", ".join(x.names)), False, f"{f.qual} rebinds module state ({', '.join(x.names)}): its result can depend on earlier calls")
                continue
            if tgt is None:
                continue
            shared = None
            if isinstance(tgt, ast.Name) and tgt.id in f.mod.consts and not _is_local(f, tgt.id):
                shared = tgt.id
            elif isinstance(tgt, ast.Attribute) and isinstance(tgt.value, ast.Name) and tgt.value.id == "cls":
                shared = "cls." + tgt.attr
            elif isinstance(tgt, ast.Attribute) and isinstance(tgt.value, ast.Name) and f.cls is not None and tgt.value.id == f.cls.name:
                shared = unparse(tgt)
            if shared is not None:
                chk.ob(rule, Site.of(f, x, f"write to {shared}"), False, f"{f.qual} writes the shared container {shared}: a codec with memory - a later input that agrees with an earlier one on the key is answered with the earlier result, so decode(encode(v)) / encode(decode(b)) can differ from v / b depending on the history of calls")
    chk.count("codec functions checked for state", n)
    chk.ob(rule, Site("src/dpapi_ng", "codec functions", 0, "pack/unpack functions write no shared container"), n > 0, f"{n} codec function(s) inspected")


def _is_local(f: t.Any, name: str) -> bool:
    for x in body_nodes(f.node):
        if isinstance(x, ast.Name) and x.id == name and isinstance(x.ctx, ast.Store):
            return True
    return name in f.params
