"""C15 - bind/auth handshake relays tokens faithfully and fails closed."""

from __future__ import annotations

import ast
import typing as t

from sa import layout
from sa.cfg import CFG, build
from sa.flow import ReachingDefs, strip_await
from sa.load import AnalysisError, Func, Repo, body_nodes, unparse
from sa.report import Check, Site
from sa.sym import Lin, SObj
from sa.symeval import CallVal, TRef

from .c11 import implied


def call_of(e: t.Optional[ast.AST]) -> t.Optional[t.Tuple[str, t.List[ast.expr], t.Dict[str, ast.expr], ast.Call]]:
    """Normalised call: awaits stripped, `self._wrap_sync(f, *a)` read as `f(*a)`."""
    if e is None:
        return None
    if isinstance(e, ast.Await):
        e = e.value
    if not isinstance(e, ast.Call):
        return None
    name = unparse(e.func)
    args = list(e.args)
    if name == "self._wrap_sync" and args:
        name = unparse(args[0])
        args = args[1:]
    return name, args, {k.arg: k.value for k in e.keywords if k.arg}, e


def run(repo: Repo, chk: Check) -> None:
    chk.scope_decides = (
        "structural rules that make the relay faithful for any peer: O1 in both bind() twins the first step() result is the trailer of the "
        "Bind that is sent; inside the loop each step() result reaches _create_alter_context -> _send_pdu before the next step unless its "
        "token is empty (break); the token fed to a step is the one _process_bind_ack took from the reply to the previous leg; every step "
        "is guarded by 'security context not complete'; alter_context carries only accepted contexts; O2 auth_len / PFC_SUPPORT_HEADER_SIGN "
        "in Bind and AlterContext; O3 write discipline of _sign_header; O4 request only after _process_bind_result accepted that context, "
        "which tests the result (not the reason) field for ACCEPTANCE; O5 BindNak/Fault/unexpected PDU types raise."
    )
    chk.scope_not = "enumeration of peer scripts; termination of the handshake (it is the peer's)."
    chk.trusted = ["spnego context.step/complete semantics"]
    for q in ("_rpc._client.SyncRpcClient.bind", "_rpc._client.AsyncRpcClient.bind"):
        relay(repo, chk, repo.func(q))
    pdu_construction(repo, chk)
    sign_header_writes(repo, chk)
    accepted_contexts(repo, chk)
    requests_after_accept(repo, chk)
    rejections_surface(repo, chk)
    # "feeds the server's tokens back in order": the reply a token is taken from is a completely received PDU (C14-O1)
    from sa.intervals import World

    from .c14 import transport_reads

    transport_reads(repo, chk, World(repo))
    chk.require_min("step sites", 4)
    chk.require_min("request sites", 4)


# ------------------------------------------------------------------------- O1
def relay(repo: Repo, chk: Check, f: Func) -> None:
    chk.analysed(f)
    g = build(f.node)
    rd = ReachingDefs(f, g)
    # all step sites: assignments  X = self._auth.step(...)
    steps: t.List[t.Tuple[ast.Assign, t.List[ast.expr]]] = []
    sends: t.List[t.Tuple[ast.Assign, t.List[ast.expr]]] = []
    for n in body_nodes(f.node):
        if isinstance(n, ast.Assign):
            c = call_of(n.value)
            if c and c[0] == "self._auth.step":
                steps.append((n, c[1]))
            if c and c[0] == "self._send_pdu":
                sends.append((n, c[1]))
    chk.count("step sites", len(steps))
    loops = [n for n in body_nodes(f.node) if isinstance(n, ast.While)]
    if len(steps) != 2 or len(loops) != 1 or len(sends) != 2:
        raise AnalysisError(f"{f.qual}: expected two step sites, two _send_pdu sites and one handshake loop (found {len(steps)}, {len(sends)}, {len(loops)})")
    loop = loops[0]
    first = [s for s in steps if not any(x is s[0] for x in ast.walk(loop))]
    inloop = [s for s in steps if any(x is s[0] for x in ast.walk(loop))]
    if len(first) != 1 or len(inloop) != 1:
        raise AnalysisError(f"{f.qual}: step sites are not one before and one inside the loop")

    def creator_of_send(send: ast.Assign, creator: str) -> t.Optional[ast.Call]:
        c = call_of(send.value)
        assert c is not None
        pdu = c[1][0] if c[1] else None
        if pdu is None:
            return None
        for val, idx in rd.origin(pdu, send):
            cc = call_of(val)
            if cc and cc[0] == creator:
                return cc[3]
        return None

    # ---- first leg: step() -> _create_bind(contexts, trailer) -> _send_pdu(bind, BindAck)
    st1, args1 = first[0]
    ok = not args1
    chk.ob("O1", Site.of(f, st1), ok, "first step() takes no input token" if ok else f"first step receives {unparse(args1[0])}")
    send1 = [s for s in sends if not any(x is s[0] for x in ast.walk(loop))]
    send2 = [s for s in sends if any(x is s[0] for x in ast.walk(loop))]
    if len(send1) != 1 or len(send2) != 1:
        raise AnalysisError(f"{f.qual}: _send_pdu sites are not one before and one inside the loop")
    cb = creator_of_send(send1[0][0], "self._create_bind")
    okb = cb is not None and len(cb.args) == 2
    site = Site.of(f, send1[0][0])
    chk.ob("O1", site, bool(okb), "the PDU sent first is the result of _create_bind" if okb else "the first _send_pdu does not send the _create_bind(...) result")
    if okb and cb is not None:
        srcs = rd.origin(cb.args[1], cb)
        # trailer: the step result when authenticating (or None when not)
        vals = [call_of(v) for v, _ in srcs]
        from_step = [v for v in vals if v and v[0] == "self._auth.step"]
        others = [unparse(v) for (v, _), c in zip(srcs, vals) if not c]
        okt = len(from_step) == 1 and from_step[0][3] is call_of(st1.value)[3] and all(o == "None" for o in others)  # type: ignore[index]
        chk.ob("O1", site, okt, "Bind carries the first step() trailer (None without authentication)" if okt else f"Bind sec_trailer comes from {[unparse(v) for v, _ in srcs]}, not from the first step()")
        okc = unparse(cb.args[0]) == "contexts"
        chk.ob("O1", site, okc, "Bind offers the caller's contexts" if okc else f"Bind offers {unparse(cb.args[0])}")
    ty1 = send1[0][1][1] if len(send1[0][1]) > 1 else None
    chk.ob("O1", site, ty1 is not None and unparse(ty1) == "BindAck", "expects BindAck")
    # ---- process_bind_ack on the bind_ack
    pba = [n for n in body_nodes(f.node) if isinstance(n, ast.Assign) and (call_of(n.value) or ("",))[0] == "self._process_bind_ack"]
    pba_out = [n for n in pba if not any(x is n for x in ast.walk(loop))]
    pba_in = [n for n in pba if any(x is n for x in ast.walk(loop))]
    if len(pba_out) != 1 or len(pba_in) != 1:
        raise AnalysisError(f"{f.qual}: _process_bind_ack sites are not one before and one inside the loop")
    c0 = call_of(pba_out[0].value)
    assert c0 is not None
    ack_name = unparse(send1[0][0].targets[0])
    ok0 = len(c0[1]) == 2 and unparse(c0[1][0]) == ack_name and unparse(c0[1][1]) == "contexts"
    chk.ob("O1", Site.of(f, pba_out[0]), ok0, "accepted contexts and server token taken from the bind_ack" if ok0 else f"_process_bind_ack({', '.join(map(unparse, c0[1]))}) is not applied to the bind_ack and the offered contexts")
    tgt0 = pba_out[0].targets[0]
    if not (isinstance(tgt0, ast.Tuple) and len(tgt0.elts) == 2 and all(isinstance(e, ast.Name) for e in tgt0.elts)):
        raise AnalysisError(f"{f.qual}: _process_bind_ack result is not unpacked into (contexts, token)")
    final_ctx, tok = tgt0.elts[0].id, tgt0.elts[1].id  # type: ignore[attr-defined]
    # ---- loop guard: every step in the loop runs only while the context is incomplete
    st2, args2 = inloop[0]
    nid2 = g.first_of_stmt.get(st2)
    guards = g.guards_of(nid2) if nid2 is not None else []
    okg = any(unparse(c) == "self._auth.complete" and pol is False for c, pol in guards)
    chk.ob("O1", Site.of(f, loop.test), okg, "step() is only reached while self._auth.complete is false" if okg else f"loop condition '{unparse(loop.test)}' lets step() run although the security context is complete")
    # ---- token fed to the step: in_token or b"" with in_token from _process_bind_ack of the previous reply
    a = args2[0] if args2 else None
    tokname = None
    if isinstance(a, ast.BoolOp) and isinstance(a.op, ast.Or) and isinstance(a.values[0], ast.Name) and unparse(a.values[1]) == "b''":
        tokname = a.values[0].id
    elif isinstance(a, ast.Name):
        tokname = a.id
    site2 = Site.of(f, st2)
    if tokname is None:
        chk.ob("O1", site2, False, f"the token given to step() is {unparse(a) if a is not None else 'missing'}, not the server's previous token")
    else:
        ds = rd.reaching(tokname, st2)
        want = {id(pba_out[0]), id(pba_in[0])}
        got = {id(d.stmt) for d in ds}
        okd = got == want and all(d.index == 1 for d in ds)
        chk.ob("O1", site2, okd, "step(k+1) consumes the token _process_bind_ack took from reply k" if okd else f"the token given to step() has definitions {[unparse(d.stmt)[:60] for d in ds]}: a stale or foreign token can be fed back")
    # ---- each loop step result is sent (unless empty) before the next step
    ca = creator_of_send(send2[0][0], "self._create_alter_context")
    oka = ca is not None and len(ca.args) == 2
    site3 = Site.of(f, send2[0][0])
    chk.ob("O1", site3, bool(oka), "each further leg is sent as the result of _create_alter_context" if oka else "the _send_pdu inside the loop does not send the _create_alter_context(...) result")
    if oka and ca is not None:
        srcs = rd.origin(ca.args[1], ca)
        okt = len(srcs) == 1 and call_of(srcs[0][0]) is not None and call_of(srcs[0][0])[3] is call_of(st2.value)[3]  # type: ignore[index]
        chk.ob("O1", site3, okt, "alter_context carries this iteration's step() trailer" if okt else f"alter_context sec_trailer comes from {[unparse(v) for v, _ in srcs]}")
        ds = rd.reaching(unparse(ca.args[0]), ca) if isinstance(ca.args[0], ast.Name) else []
        okf = isinstance(ca.args[0], ast.Name) and ca.args[0].id == final_ctx and len(ds) == 1 and ds[0].stmt is pba_out[0] and ds[0].index == 0
        chk.ob("O1", site3, okf, "alter_context carries only the contexts the server accepted" if okf else f"alter_context offers {unparse(ca.args[0])}, not the accepted contexts returned by _process_bind_ack(bind_ack, contexts)")
    ty2 = send2[0][1][1] if len(send2[0][1]) > 1 else None
    chk.ob("O1", site3, ty2 is not None and unparse(ty2) == "AlterContextResponse", "expects AlterContextResponse")
    # order inside the loop body: step -> (empty token => break) -> send -> process_bind_ack(reply)
    nid_send = g.first_of_stmt.get(send2[0][0])
    nid_pba = g.first_of_stmt.get(pba_in[0])
    oko = nid2 is not None and nid_send is not None and nid_pba is not None and g.dominates(nid2, nid_send) and g.dominates(nid_send, nid_pba)
    chk.ob("O1", site3, oko, "step dominates send dominates reply processing" if oko else "inside the loop the order step -> send -> process reply is not enforced on every path")
    # paths from the step that avoid the send must go through the empty-token break
    if nid2 is not None and nid_send is not None:
        bad = _paths_avoiding(g, nid2, nid_send, f, unparse(st2.targets[0]))
        chk.ob("O1", site2, not bad, "a non-empty token is always sent; only an empty token leaves the loop" if not bad else f"a step() result can be dropped without being sent: {bad}")
    c1 = call_of(pba_in[0].value)
    assert c1 is not None
    resp_name = unparse(send2[0][0].targets[0])
    ok1 = len(c1[1]) == 2 and unparse(c1[1][0]) == resp_name and unparse(c1[1][1]) == final_ctx
    tgt1 = pba_in[0].targets[0]
    ok1 = ok1 and isinstance(tgt1, ast.Tuple) and len(tgt1.elts) == 2 and unparse(tgt1.elts[1]) == tok
    chk.ob("O1", Site.of(f, pba_in[0]), ok1, "next token taken from this iteration's reply" if ok1 else f"{unparse(pba_in[0])}: the next token is not taken from the reply to this leg")
    # ---- returns the bind_ack
    for r in [n for n in body_nodes(f.node) if isinstance(n, ast.Return)]:
        okr = r.value is not None and unparse(r.value) == ack_name
        chk.ob("O1", Site.of(f, r), okr, "returns the BindAck" if okr else f"returns {unparse(r.value)}")


def _paths_avoiding(g: CFG, src: int, must: int, f: Func, trailer_var: str) -> str:
    """Paths from `src` that reach src again or return without passing `must`: allowed only through the
    'not <trailer>.auth_value' (empty token) exit."""
    bad = ""
    stack = [(y, lab, False) for y, lab in g.succ[src]]
    seen = set()
    while stack:
        x, lab, via_empty = stack.pop()
        if (x, via_empty) in seen:
            continue
        seen.add((x, via_empty))
        if x == must:
            continue
        n = g.nodes[x]
        if x == g.ret or x == src:
            if not via_empty:
                bad = "path from step() to " + ("return" if x == g.ret else "the next step()") + " without _send_pdu"
            continue
        if x == g.exc:
            continue
        for y, l2 in g.succ[x]:
            ve = via_empty
            if n.kind == "cond" and unparse(n.ast) == f"{trailer_var}.auth_value" and l2 is False:
                ve = True
            stack.append((y, l2, ve))
    return bad


# ------------------------------------------------------------------------- O2
def pdu_construction(repo: Repo, chk: Check) -> None:
    sign = None
    flags_cls = repo.cls("_rpc._pdu.PacketFlags")
    sign = repo.enum_members(flags_cls).get("PFC_SUPPORT_HEADER_SIGN")
    f = repo.method("_rpc._client.RpcClient", "_create_bind")
    chk.analysed(f)
    for st, out in layout.Interp(repo, f).run(layout.self_state(repo, f)):
        if out.kind != "return":
            continue
        facts = implied(st.conds)
        has = any(c.info.get("truthy") == "sec_trailer" and pol for c, pol in facts)
        hc = [c for c in st.calls if c.name.endswith("._create_pdu_header")]
        site = Site.of(f, hc[0].node if hc else None, f"_create_bind [{'with' if has else 'without'} trailer]")
        if len(hc) != 1:
            chk.ob("O2", site, False, "no single _create_pdu_header call")
            continue
        al = hc[0].arg(1)
        want = Lin.atom(("len", "sec_trailer.auth_value")) if has else Lin(0)
        chk.ob("O2", site, isinstance(al, Lin) and al == want, f"auth_len = {want!r}" if isinstance(al, Lin) and al == want else f"auth_len is {al!r}, expected {want!r}")
        fl = hc[0].arg(3, "flags")
        flv = fl.const if isinstance(fl, Lin) and fl.is_const() else None
        okf = flv is not None and bool(flv & sign) == has
        chk.ob("O2", site, okf, "PFC_SUPPORT_HEADER_SIGN set iff a trailer is present" if okf else f"Bind flags are {fl!r} with trailer {'present' if has else 'absent'}")
        pt = hc[0].arg(0)
        chk.ob("O2", site, isinstance(pt, Lin) and pt == 11, "packet type BIND")
        wrote = [s for s in st.setattrs if s[0] == "self._sign_header"]
        okw = (len(wrote) == 1 and wrote[0][2] is True) if has else not wrote
        chk.ob("O3", site, okw, "_sign_header := True iff authenticating" if okw else f"_sign_header written {[(w[0], w[2]) for w in wrote]} on the path {'with' if has else 'without'} trailer")
        res = out.value
        okr = isinstance(res, SObj) and res.cls.name == "Bind" and isinstance(res.fields.get("sec_trailer"), (TRef, type(None))) and getattr(res.fields.get("contexts"), "path", None) == "contexts"
        chk.ob("O2", site, okr, "Bind(sec_trailer=sec_trailer, contexts=contexts)" if okr else f"Bind built as {res!r}")
    f = repo.method("_rpc._client.RpcClient", "_create_alter_context")
    chk.analysed(f)
    n = 0
    for st, out in layout.Interp(repo, f).run(layout.self_state(repo, f)):
        if out.kind != "return":
            continue
        n += 1
        facts = implied(st.conds)
        sh = any(c.info.get("truthy") == "self._sign_header" and pol for c, pol in facts)
        hc = [c for c in st.calls if c.name.endswith("._create_pdu_header")]
        site = Site.of(f, hc[0].node if hc else None, f"_create_alter_context [sign_header={sh}]")
        if len(hc) != 1:
            chk.ob("O2", site, False, "no single _create_pdu_header call")
            continue
        al = hc[0].arg(1)
        want = Lin.atom(("len", "sec_trailer.auth_value"))
        chk.ob("O2", site, isinstance(al, Lin) and al == want, "auth_len = len(sec_trailer.auth_value)" if isinstance(al, Lin) and al == want else f"auth_len is {al!r}")
        fl = hc[0].arg(3, "flags")
        flv = fl.const if isinstance(fl, Lin) and fl.is_const() else None
        okf = flv is not None and bool(flv & sign) == sh
        chk.ob("O2", site, okf, "PFC_SUPPORT_HEADER_SIGN set iff header signing is still negotiated" if okf else f"AlterContext flags are {fl!r} while _sign_header is {sh}")
        pt = hc[0].arg(0)
        chk.ob("O2", site, isinstance(pt, Lin) and pt == 14, "packet type ALTER_CONTEXT")
    chk.ob("O2", Site.of(f, construct="_create_alter_context paths"), n == 2, f"{n} paths (sign_header on/off)")


# ------------------------------------------------------------------------- O3
def sign_header_writes(repo: Repo, chk: Check) -> None:
    writes = []
    for f in repo.funcs.values():
        for n in body_nodes(f.node):
            if isinstance(n, (ast.Assign, ast.AugAssign, ast.AnnAssign)):
                for tg in (n.targets if isinstance(n, ast.Assign) else [n.target]):
                    if isinstance(tg, ast.Attribute) and tg.attr == "_sign_header":
                        writes.append((f, n))
            if isinstance(n, ast.Call) and unparse(n.func) in ("setattr", "object.__setattr__") and any(isinstance(a, ast.Constant) and a.value == "_sign_header" for a in n.args):
                writes.append((f, n))
    allowed = {"_rpc._client.RpcClient.__init__": False, "_rpc._client.RpcClient._create_bind": True, "_rpc._client.RpcClient._process_bind_ack": False}
    seen = set()
    for f, n in writes:
        chk.analysed(f)
        site = Site.of(f, n)
        if f.qual not in allowed:
            chk.ob("O3", site, False, f"_sign_header is written in {f.qual}: only __init__, _create_bind and _process_bind_ack may write it")
            continue
        val = getattr(n, "value", None)
        okv = isinstance(val, ast.Constant) and val.value is allowed[f.qual]
        seen.add(f.qual)
        if not okv:
            chk.ob("O3", site, False, f"_sign_header is assigned {unparse(val)} in {f.name}; it may only be {'set' if allowed[f.qual] else 'cleared'} there (header signing needs both sides: it can be switched off by an ack, never back on)")
            continue
        if f.name == "_process_bind_ack":
            chk.ob("O3", site, True, "_sign_header := False in _process_bind_ack (guard checked per path below)")
        else:
            chk.ob("O3", site, True, f"_sign_header := {allowed[f.qual]} in {f.name}")
    chk.ob("O3", Site("src/dpapi_ng/_rpc/_client.py", "_rpc._client.RpcClient", 0, "_sign_header write sites"), seen == set(allowed), f"written in {sorted(seen)}")
    downgrade_paths(repo, chk)
    # read only as the sign_header argument of wrap/unwrap and in _create_alter_context
    for f in repo.funcs.values():
        for n in body_nodes(f.node):
            if isinstance(n, ast.Attribute) and n.attr == "_sign_header" and isinstance(n.ctx, ast.Load):
                ok = f.name in ("_prepare_pdu", "_process_response", "_create_alter_context")
                chk.ob("O3", Site.of(f, n), ok, "read as negotiated header signing state" if ok else f"_sign_header read in {f.qual}")


# ------------------------------------------------------------------------- O4
def _acceptance_test(repo: Repo, f: Func, chk: Check, elem_desc: str) -> None:
    """The membership test compares the *result* field of a ContextResult with ACCEPTANCE."""
    tests = [n for n in body_nodes(f.node) if isinstance(n, ast.Compare) and "ACCEPTANCE" in unparse(n)]
    site = Site.of(f, tests[0] if tests else None, None if tests else f"{f.name}: acceptance test")
    if len(tests) != 1:
        chk.ob("O4", site, False, f"{f.name} has {len(tests)} acceptance tests")
        return
    c = tests[0]
    okc = isinstance(c.ops[0], ast.Eq) and isinstance(c.left, ast.Attribute) and c.left.attr == "result" and unparse(c.comparators[0]).endswith("ContextResultCode.ACCEPTANCE")
    chk.ob("O4", site, okc, "context accepted iff result == ACCEPTANCE" if okc else f"acceptance is decided by '{unparse(c)}', not by the result field being ACCEPTANCE")


def accepted_contexts(repo: Repo, chk: Check) -> None:
    f = repo.func("_client._process_bind_result")
    chk.analysed(f)
    _acceptance_test(repo, f, chk, "bind_ack.results")
    g = build(f.node)
    src = unparse(f.node)
    loops = [n for n in body_nodes(f.node) if isinstance(n, ast.For)]
    okl = len(loops) == 1 and unparse(loops[0].iter) == f"enumerate({f.params[1]}.results)"
    chk.ob("O4", Site.of(f, loops[0] if loops else None, None if loops else "result loop"), okl, "walks the server's result list in order" if okl else "the result list is not walked with enumerate(bind_ack.results)")
    if okl:
        idx = unparse(loops[0].target.elts[0])  # type: ignore[attr-defined]
        okm = f"{f.params[0]}[{idx}]" in src and ".context_id" in src
        chk.ob("O4", Site.of(f, loops[0]), okm, "result i belongs to requested context i" if okm else "results are not matched to the requested contexts by position")
    raises = [n for n in body_nodes(f.node) if isinstance(n, ast.Raise)]
    okr = False
    for r in raises:
        nid = g.first_of_stmt.get(r)
        for c, pol in (g.guards_of(nid) if nid is not None else []):
            if isinstance(c, ast.Compare) and isinstance(c.ops[0], ast.NotIn) and unparse(c.left) == f.params[2] and pol:
                okr = True
            if isinstance(c, ast.Compare) and isinstance(c.ops[0], ast.In) and unparse(c.left) == f.params[2] and not pol:
                okr = True
    chk.ob("O4", Site.of(f, raises[0] if raises else None, None if raises else "rejection"), okr, "raises unless the desired context is among the accepted ids" if okr else "_process_bind_result does not raise when the desired context was not accepted")
    rets = [p for p, lab in g.pred[g.ret]]
    f2 = repo.method("_rpc._client.RpcClient", "_process_bind_ack")
    chk.analysed(f2)
    _acceptance_test(repo, f2, chk, "ack.results")
    del rets


def requests_after_accept(repo: Repo, chk: Check) -> None:
    for q in ("_client._sync_get_key", "_client._async_get_key"):
        f = repo.func(q)
        chk.analysed(f)
        g = build(f.node)
        rd = ReachingDefs(f, g)
        reqs = []
        for n in body_nodes(f.node):
            c = call_of(n) if isinstance(n, (ast.Call, ast.Await)) else None
            if c and c[0].endswith(".request") and isinstance(n, ast.Call):
                reqs.append((n, c))
        chk.count("request sites", len(reqs))
        for n, c in reqs:
            site = Site.of(f, n)
            nid = rd.node_of(n)
            rpc = unparse(t.cast(ast.Attribute, n.func).value)
            ctx = c[1][0] if c[1] else None
            okc, ctxv = repo.try_fold(ctx, f.mod) if ctx is not None and not isinstance(ctx, ast.Name) else (False, None)
            if isinstance(ctx, ast.Name):
                d = rd.single_def(ctx.id, n)
                if d is not None and d.value is not None:
                    okc, ctxv = repo.try_fold(d.value, f.mod)
            # dominating _process_bind_result(CTXS, ack, ctx) with ack = rpc.bind(contexts=CTXS) on the same rpc
            found = None
            for m in body_nodes(f.node):
                if isinstance(m, ast.Call) and unparse(m.func) == "_process_bind_result" and len(m.args) == 3:
                    mid = rd.node_of(m)
                    if mid is None or nid is None or not g.dominates(mid, nid):
                        continue
                    ack = m.args[1]
                    ackdef = rd.single_def(unparse(ack), m) if isinstance(ack, ast.Name) else None
                    bc = call_of(ackdef.value) if ackdef is not None and ackdef.value is not None else None
                    if not bc or not bc[0].endswith(".bind") or unparse(t.cast(ast.Attribute, bc[3].func).value) != rpc:
                        continue
                    # same connection object: the rpc name must not be rebound between bind and request
                    if {id(d) for d in rd.reaching(rpc, bc[3])} != {id(d) for d in rd.reaching(rpc, n)}:
                        continue
                    bctx = bc[2].get("contexts") or (bc[1][0] if bc[1] else None)
                    if bctx is None or unparse(bctx) != unparse(m.args[0]):
                        continue
                    want = m.args[2]
                    okw, wv = (False, None)
                    if isinstance(want, ast.Name):
                        dd = rd.single_def(want.id, m)
                        if dd is not None and dd.value is not None:
                            okw, wv = repo.try_fold(dd.value, f.mod)
                    else:
                        okw, wv = repo.try_fold(want, f.mod)
                    if okc and okw and wv == ctxv:
                        found = m
            chk.ob("O4", site, found is not None, f"context {ctxv} was checked as accepted on this connection before the request" if found is not None else f"request on context {unparse(ctx) if ctx is not None else '?'} is not dominated by _process_bind_result(<offered>, <ack of this connection's bind>, <that context>)")


# ------------------------------------------------------------------------- O5
def rejections_surface(repo: Repo, chk: Check) -> None:
    f = repo.method("_rpc._client.RpcClient", "_process_response")
    chk.analysed(f)
    g = build(f.node)
    bad = []
    n = 0
    for path, exit_id, dec in g.paths(lambda nd: None, key=lambda nd: unparse(nd.ast)):
        if exit_id != g.ret:
            continue
        n += 1
        keys = {k: v for k, v in dec.items() if k.startswith("isinstance(")}
        nak = [v for k, v in keys.items() if k.endswith(", BindNak)")]
        flt = [v for k, v in keys.items() if k.endswith(", Fault)")]
        typ = [v for k, v in keys.items() if k.endswith(", resp_type)")]
        if not nak or nak[0] is not False:
            bad.append("a BindNak is not turned into an error")
        if not flt or flt[0] is not False:
            bad.append("a Fault is not turned into an error")
        if not typ or typ[0] is not True:
            bad.append("an unexpected PDU type is returned instead of raising")
    chk.ob("O5", Site.of(f, construct="BindNak / Fault / unexpected type raise"), not bad and n > 0, "every returning path has: not BindNak, not Fault, is resp_type" if not bad else "; ".join(sorted(set(bad))))
    # callers do not catch
    from .c16 import no_swallow

    no_swallow(repo, chk, "O5", ["_rpc._client", "_client"])


def downgrade_paths(repo: Repo, chk: Check) -> None:
    """_process_bind_ack: every returning path has examined the ack's PFC_SUPPORT_HEADER_SIGN bit; header signing is
    switched off exactly on the paths where the bit is absent (whatever else the ack carries), never touched otherwise."""
    from sa.pathsum import Summary, canon_test

    f = repo.method("_rpc._client.RpcClient", "_process_bind_ack")
    chk.analysed(f)
    summ = Summary(f, ["self", "ack", "contexts"], prune=True)
    n = 0
    for ps in summ.returning():
        n += 1
        flag: t.Optional[bool] = None
        for e, pol in ps.atoms():
            core, p2 = canon_test(ps.owner.renamed(e), pol)  # type: ignore[arg-type]
            if isinstance(core, ast.BinOp) and isinstance(core.op, ast.BitAnd):
                sides = {unparse(core.left), unparse(core.right)}
                if sides == {"ack.header.packet_flags", "PacketFlags.PFC_SUPPORT_HEADER_SIGN"}:
                    flag = p2
        writes = [e for e in ps.stores() if ps.text(e.target) == "self._sign_header"]
        site = Site.of(f, ps.exit_node, f"_process_bind_ack returns [{', '.join(sorted(ps.facts()))[:120]}]")
        if flag is None:
            chk.ob("O3", site, False, "a returning path of _process_bind_ack never examines the ack's PFC_SUPPORT_HEADER_SIGN flag: an ack without the flag (e.g. one without an auth verifier) leaves header signing on although the server did not agree to it")
        elif flag is False:
            ok = len(writes) == 1 and ps.text(writes[0].tree) == "False"
            chk.ob("O3", site, ok, "ack lacks PFC_SUPPORT_HEADER_SIGN -> header signing switched off" if ok else "the ack lacks PFC_SUPPORT_HEADER_SIGN but header signing is not switched off on this path")
        else:
            chk.ob("O3", site, not writes, "ack advertises header signing -> state untouched" if not writes else f"_sign_header is written ({[ps.text(w.tree) for w in writes]}) although the ack advertises header signing")
    chk.ob("O3", Site.of(f, construct="_process_bind_ack returning paths"), n >= 2, f"{n} returning paths")
