"""C15 - bind/auth handshake relays tokens faithfully and fails closed."""

from __future__ import annotations

import ast
import typing as t

from sa import layout
from sa.cfg import CFG, build
from sa.flow import ReachingDefs, strip_await
from sa.load import AnalysisError, Func, Repo, body_nodes, unparse
from sa.report import Check, Site
from sa.sym import Lin, SObj
from sa.symeval import CallVal, TRef

from .c11 import implied


def call_of(e: t.Optional[ast.AST]) -> t.Optional[t.Tuple[str, t.List[ast.expr], t.Dict[str, ast.expr], ast.Call]]:
    """Normalised call: awaits stripped, `self._wrap_sync(f, *a)` read as `f(*a)`."""
    if e is None:
        return None
    if isinstance(e, ast.Await):
        e = e.value
    if not isinstance(e, ast.Call):
        return None
    name = unparse(e.func)
    args = list(e.args)
    if name == "self._wrap_sync" and args:
        name = unparse(args[0])
        args = args[1:]
    return name, args, {k.arg: k.value for k in e.keywords if k.arg}, e


def run(repo: Repo, chk: Check) -> None:
    chk.scope_decides = (
        "structural rules that make the relay faithful for any peer: O1 in both bind() twins the first step() result is the trailer of the "
        "Bind that is sent; inside the loop each step() result reaches _create_alter_context -> _send_pdu before the next step unless its "
        "token is empty (break); the token fed to a step is the one _process_bind_ack took from the reply to the previous leg; every step "
        "is guarded by 'security context not complete'; alter_context carries only accepted contexts; O2 auth_len / PFC_SUPPORT_HEADER_SIGN "
        "in Bind and AlterContext; O3 write discipline of _sign_header; O4 request only after _process_bind_result accepted that context, "
        "which tests the result (not the reason) field for ACCEPTANCE; O5 BindNak/Fault/unexpected PDU types raise."
    )
    chk.scope_not = "enumeration of peer scripts; termination of the handshake (it is the peer's)."
    chk.trusted = ["spnego context.step/complete semantics"]
    for q in ("_rpc._client.SyncRpcClient.bind", "_rpc._client.AsyncRpcClient.bind"):
        relay(repo, chk, repo.func(q))
    pdu_construction(repo, chk)
    sign_header_writes(repo, chk)
    accepted_contexts(repo, chk)
    requests_after_accept(repo, chk)
    rejections_surface(repo, chk)
    # "feeds the server's tokens back in order": the reply a token is taken from is a completely received PDU (C14-O1)
    from sa.intervals import World

    from .c14 import transport_reads

    transport_reads(repo, chk, World(repo))
    chk.require_min("step sites", 4)
    chk.require_min("request sites", 4)


# ------------------------------------------------------------------------- O1
def relay(repo: Repo, chk: Check, f: Func) -> None:
    """The bind conversation, decided on path summaries of bind() (every path, the handshake loop taken 0, 1 and 2 times):
    without authentication one Bind without trailer is sent and its BindAck returned; with authentication the calls are
    step() -> _create_bind(contexts, that trailer) -> _send_pdu(.., BindAck) -> _process_bind_ack(ack, contexts), then per
    leg, only while the context is incomplete: step(token of the previous reply) -> _create_alter_context(accepted
    contexts, that trailer) -> _send_pdu(.., AlterContextResponse) -> _process_bind_ack(reply, accepted contexts); a step
    result is dropped unsent only when it carries no token; the BindAck is returned."""
    from sa.pathsum import Summary

    from .util import args_of

    chk.analysed(f)
    summ = Summary(f, loop_bound=3, prune=True)
    n_auth = n_plain = 0
    nsteps_max = 0
    problems: t.Dict[str, t.Tuple[t.Optional[ast.AST], str]] = {}

    def note(key: str, node: t.Optional[ast.AST], msg: str) -> None:
        problems.setdefault(key, (node, msg))

    def functext(ps: t.Any, e: t.Any) -> str:
        return ps.text(t.cast(ast.Call, e.tree).func)

    for ps in summ.returning():
        facts = ps.facts()
        evs = [e for e in ps.events if e.kind == "call"]
        order = {id(e): i for i, e in enumerate(ps.events)}
        steps: t.List[t.Tuple[t.Any, t.List[ast.expr]]] = []
        for e in evs:
            c = t.cast(ast.Call, e.tree)
            ft = functext(ps, e)
            if ft == "self._auth.step":
                steps.append((e, list(c.args)))
            elif ft.endswith("._wrap_sync") and c.args and ps.text(c.args[0]) == "self._auth.step":
                steps.append((e, list(c.args[1:])))
        binds = [e for e in evs if functext(ps, e) == "self._create_bind"]
        alters = [e for e in evs if functext(ps, e) == "self._create_alter_context"]
        sends = [e for e in evs if functext(ps, e) == "self._send_pdu"]
        pbas = [e for e in evs if functext(ps, e) == "self._process_bind_ack"]
        site_r = ps.exit_node
        if "not (self._auth)" in facts or ("self._auth" not in facts and not steps):
            n_plain += 1
            ok = len(binds) == 1 and len(sends) == 1 and not steps and not alters
            if ok:
                ba = args_of(repo, f, t.cast(ast.Call, binds[0].tree))
                tr = ba.get("sec_trailer")
                ok = ps.text(ba.get("contexts")) == "contexts" and (tr is None or ps.text(tr) == "None")
                sa_ = t.cast(ast.Call, sends[0].tree).args
                ok = ok and len(sa_) >= 2 and ps.key(sa_[0]) == ps.key(binds[0].tree) and ps.text(sa_[1]) == "BindAck" and ps.key(ps.value) == ps.key(sends[0].tree)
            if not ok:
                note("plain", site_r, "without authentication bind() does not send one Bind(contexts, no trailer) and return its BindAck")
            continue
        n_auth += 1
        nsteps_max = max(nsteps_max, len(steps))
        if len(steps) < 1 or len(binds) != 1 or len(sends) < 1 or len(pbas) < 1:
            note("shape", site_r, f"an authenticated bind path has {len(steps)} step, {len(binds)} _create_bind, {len(sends)} _send_pdu, {len(pbas)} _process_bind_ack call(s)")
            continue
        st0, a0 = steps[0]
        if a0:
            note("first", st0.node, f"first step receives {ps.text(a0[0])}")
        ba = args_of(repo, f, t.cast(ast.Call, binds[0].tree))
        if not (ba.get("sec_trailer") is not None and ps.key(ba["sec_trailer"]) == ps.key(st0.tree)):
            note("bind-trailer", binds[0].node, f"Bind sec_trailer is {ps.text(ba.get('sec_trailer'))}, not the first step() result")
        if ps.text(ba.get("contexts")) != "contexts":
            note("bind-ctx", binds[0].node, f"Bind offers {ps.text(ba.get('contexts'))}")
        s0 = sends[0]
        s0a = t.cast(ast.Call, s0.tree).args
        if not (len(s0a) >= 2 and ps.key(s0a[0]) == ps.key(binds[0].tree) and ps.text(s0a[1]) == "BindAck"):
            note("send0", s0.node, "the first _send_pdu does not send the _create_bind(...) result expecting a BindAck")
        p0 = pbas[0]
        p0a = t.cast(ast.Call, p0.tree).args
        if not (len(p0a) == 2 and ps.key(p0a[0]) == ps.key(s0.tree) and ps.text(p0a[1]) == "contexts"):
            note("pba0", p0.node, f"_process_bind_ack({', '.join(ps.text(x) for x in p0a)}) is not applied to the bind_ack and the offered contexts")
        if not (order[id(st0)] < order[id(binds[0])] < order[id(s0)] < order[id(p0)]):
            note("order0", s0.node, "first leg is not step -> _create_bind -> _send_pdu -> _process_bind_ack")
        accepted = ps.key(p0.tree) + "[0]"
        prev = p0
        ai = si = pi = 1  # next alter / send / process events to consume
        alt_i = 0
        for k, (st, a) in enumerate(steps[1:], start=1):
            # only while the context is incomplete
            before = [(ps.text(e_), pol) for e_, pol in ps.atoms(before=st)]
            if ("self._auth.complete", False) not in before:
                note("complete", st.node, "step() is reached although no test found the security context incomplete")
            tok = a[0] if a else None
            want = ps.key(prev.tree) + "[1]"
            got = ps.key(tok) if tok is not None else ""
            if got not in (want, f"{want} or b''", f"({want}) or b''"):
                note("token", st.node, f"step {k + 1} receives {ps.text(tok) if tok is not None else 'nothing'}, not the token _process_bind_ack took from the previous reply: a stale or foreign token can be fed back")
            # is this step's trailer sent?
            nxt_alt = alters[alt_i] if alt_i < len(alters) else None
            later_step = steps[k + 1][0] if k + 1 < len(steps) else None
            sent = nxt_alt is not None and (later_step is None or order[id(nxt_alt)] < order[id(later_step)]) and order[id(nxt_alt)] > order[id(st)]
            if not sent:
                empty = any(ps.key(e_) == ps.key(st.tree) + ".auth_value" and pol is False for e_, pol in ps.atoms())
                if not empty:
                    note("dropped", st.node, "a step() result can be dropped without being sent although it carries a token")
                continue
            alt_i += 1
            aa = args_of(repo, f, t.cast(ast.Call, nxt_alt.tree))
            if not (aa.get("sec_trailer") is not None and ps.key(aa["sec_trailer"]) == ps.key(st.tree)):
                note("alter-trailer", nxt_alt.node, f"alter_context sec_trailer is {ps.text(aa.get('sec_trailer'))}, not this leg's step() result")
            if ps.key(aa.get("contexts")) != accepted:
                note("alter-ctx", nxt_alt.node, f"alter_context offers {ps.text(aa.get('contexts'))}, not the accepted contexts returned by _process_bind_ack(bind_ack, contexts)")
            snd = next((e for e in sends if order[id(e)] > order[id(nxt_alt)]), None)
            if snd is None or not (len(t.cast(ast.Call, snd.tree).args) >= 2 and ps.key(t.cast(ast.Call, snd.tree).args[0]) == ps.key(nxt_alt.tree) and ps.text(t.cast(ast.Call, snd.tree).args[1]) == "AlterContextResponse"):
                note("send-k", nxt_alt.node, "the alter_context is not sent with _send_pdu expecting an AlterContextResponse")
                continue
            pk = next((e for e in pbas if order[id(e)] > order[id(snd)]), None)
            pka = t.cast(ast.Call, pk.tree).args if pk is not None else []
            if pk is None or not (len(pka) == 2 and ps.key(pka[0]) == ps.key(snd.tree) and ps.key(pka[1]) == accepted):
                note("pba-k", snd.node, "the reply to this leg is not processed by _process_bind_ack(reply, accepted contexts): the next token is not taken from it")
                continue
            if later_step is not None and not order[id(pk)] < order[id(later_step)]:
                note("order-k", snd.node, "inside the loop the order step -> send -> process reply is not kept")
            prev = pk
        if ps.key(ps.value) != ps.key(s0.tree):
            note("ret", site_r, f"returns {ps.text(ps.value)[:60]}, not the BindAck")
    chk.count("step sites", 2 if nsteps_max >= 2 else nsteps_max)
    site = Site.of(f, construct=f"{f.name}: bind conversation")
    if n_auth == 0 or n_plain == 0 or nsteps_max < 3:
        note("paths", None, f"bind() paths: {n_plain} without authentication, {n_auth} with, at most {nsteps_max} step() calls on a path (the handshake loop must be walkable twice)")
    for key, (node, msg) in sorted(problems.items()):
        chk.ob("O1", Site.of(f, node) if node is not None else site, False, msg)
    if not problems:
        chk.ob("O1", site, True, f"{n_plain} unauthenticated and {n_auth} authenticated path(s): Bind carries the first step() trailer and the caller's contexts; each further leg feeds the previous reply's token to step(), sends its trailer with the accepted contexts and processes the reply; only a token-less step result is not sent; the BindAck is returned")


def _paths_avoiding(g: CFG, src: int, must: int, f: Func, trailer_var: str) -> str:
    """Paths from `src` that reach src again or return without passing `must`: allowed only through the
    'not <trailer>.auth_value' (empty token) exit."""
    bad = ""
    stack = [(y, lab, False) for y, lab in g.succ[src]]
    seen = set()
    while stack:
        x, lab, via_empty = stack.pop()
        if (x, via_empty) in seen:
            continue
        seen.add((x, via_empty))
        if x == must:
            continue
        n = g.nodes[x]
        if x == g.ret or x == src:
            if not via_empty:
                bad = "path from step() to " + ("return" if x == g.ret else "the next step()") + " without _send_pdu"
            continue
        if x == g.exc:
            continue
        for y, l2 in g.succ[x]:
            ve = via_empty
            if n.kind == "cond" and unparse(n.ast) == f"{trailer_var}.auth_value" and l2 is False:
                ve = True
            stack.append((y, l2, ve))
    return bad


# ------------------------------------------------------------------------- O2
def pdu_construction(repo: Repo, chk: Check) -> None:
    sign = None
    flags_cls = repo.cls("_rpc._pdu.PacketFlags")
    sign = repo.enum_members(flags_cls).get("PFC_SUPPORT_HEADER_SIGN")
    f = repo.method("_rpc._client.RpcClient", "_create_bind")
    chk.analysed(f)
    for st, out in layout.Interp(repo, f).run(layout.self_state(repo, f)):
        if out.kind != "return":
            continue
        facts = implied(st.conds)
        has = any(c.info.get("truthy") == "sec_trailer" and pol for c, pol in facts)
        hc = [c for c in st.calls if c.name.endswith("._create_pdu_header")]
        site = Site.of(f, hc[0].node if hc else None, f"_create_bind [{'with' if has else 'without'} trailer]")
        if len(hc) != 1:
            chk.ob("O2", site, False, "no single _create_pdu_header call")
            continue
        al = hc[0].arg(1)
        want = Lin.atom(("len", "sec_trailer.auth_value")) if has else Lin(0)
        chk.ob("O2", site, isinstance(al, Lin) and al == want, f"auth_len = {want!r}" if isinstance(al, Lin) and al == want else f"auth_len is {al!r}, expected {want!r}")
        fl = hc[0].arg(3, "flags")
        flv = fl.const if isinstance(fl, Lin) and fl.is_const() else None
        okf = flv is not None and bool(flv & sign) == has
        chk.ob("O2", site, okf, "PFC_SUPPORT_HEADER_SIGN set iff a trailer is present" if okf else f"Bind flags are {fl!r} with trailer {'present' if has else 'absent'}")
        pt = hc[0].arg(0)
        chk.ob("O2", site, isinstance(pt, Lin) and pt == 11, "packet type BIND")
        wrote = [s for s in st.setattrs if s[0] == "self._sign_header"]
        okw = (len(wrote) == 1 and wrote[0][2] is True) if has else not wrote
        chk.ob("O3", site, okw, "_sign_header := True iff authenticating" if okw else f"_sign_header written {[(w[0], w[2]) for w in wrote]} on the path {'with' if has else 'without'} trailer")
        res = out.value
        okr = isinstance(res, SObj) and res.cls.name == "Bind" and isinstance(res.fields.get("sec_trailer"), (TRef, type(None))) and getattr(res.fields.get("contexts"), "path", None) == "contexts"
        chk.ob("O2", site, okr, "Bind(sec_trailer=sec_trailer, contexts=contexts)" if okr else f"Bind built as {res!r}")
    f = repo.method("_rpc._client.RpcClient", "_create_alter_context")
    chk.analysed(f)
    n = 0
    for st, out in layout.Interp(repo, f).run(layout.self_state(repo, f)):
        if out.kind != "return":
            continue
        n += 1
        facts = implied(st.conds)
        sh = any(c.info.get("truthy") == "self._sign_header" and pol for c, pol in facts)
        hc = [c for c in st.calls if c.name.endswith("._create_pdu_header")]
        site = Site.of(f, hc[0].node if hc else None, f"_create_alter_context [sign_header={sh}]")
        if len(hc) != 1:
            chk.ob("O2", site, False, "no single _create_pdu_header call")
            continue
        al = hc[0].arg(1)
        want = Lin.atom(("len", "sec_trailer.auth_value"))
        chk.ob("O2", site, isinstance(al, Lin) and al == want, "auth_len = len(sec_trailer.auth_value)" if isinstance(al, Lin) and al == want else f"auth_len is {al!r}")
        fl = hc[0].arg(3, "flags")
        flv = fl.const if isinstance(fl, Lin) and fl.is_const() else None
        okf = flv is not None and bool(flv & sign) == sh
        chk.ob("O2", site, okf, "PFC_SUPPORT_HEADER_SIGN set iff header signing is still negotiated" if okf else f"AlterContext flags are {fl!r} while _sign_header is {sh}")
        pt = hc[0].arg(0)
        chk.ob("O2", site, isinstance(pt, Lin) and pt == 14, "packet type ALTER_CONTEXT")
    chk.ob("O2", Site.of(f, construct="_create_alter_context paths"), n == 2, f"{n} paths (sign_header on/off)")


# ------------------------------------------------------------------------- O3
def sign_header_writes(repo: Repo, chk: Check) -> None:
    writes = []
    for f in repo.funcs.values():
        for n in body_nodes(f.node):
            if isinstance(n, (ast.Assign, ast.AugAssign, ast.AnnAssign)):
                for tg in (n.targets if isinstance(n, ast.Assign) else [n.target]):
                    if isinstance(tg, ast.Attribute) and tg.attr == "_sign_header":
                        writes.append((f, n))
            if isinstance(n, ast.Call) and unparse(n.func) in ("setattr", "object.__setattr__") and any(isinstance(a, ast.Constant) and a.value == "_sign_header" for a in n.args):
                writes.append((f, n))
    allowed = {"_rpc._client.RpcClient.__init__": False, "_rpc._client.RpcClient._create_bind": True, "_rpc._client.RpcClient._process_bind_ack": False}
    seen = set()
    for f, n in writes:
        chk.analysed(f)
        site = Site.of(f, n)
        if f.qual not in allowed:
            chk.ob("O3", site, False, f"_sign_header is written in {f.qual}: only __init__, _create_bind and _process_bind_ack may write it")
            continue
        val = getattr(n, "value", None)
        okv = isinstance(val, ast.Constant) and val.value is allowed[f.qual]
        seen.add(f.qual)
        if not okv:
            chk.ob("O3", site, False, f"_sign_header is assigned {unparse(val)} in {f.name}; it may only be {'set' if allowed[f.qual] else 'cleared'} there (header signing needs both sides: it can be switched off by an ack, never back on)")
            continue
        if f.name == "_process_bind_ack":
            chk.ob("O3", site, True, "_sign_header := False in _process_bind_ack (guard checked per path below)")
        else:
            chk.ob("O3", site, True, f"_sign_header := {allowed[f.qual]} in {f.name}")
    chk.ob("O3", Site("src/dpapi_ng/_rpc/_client.py", "_rpc._client.RpcClient", 0, "_sign_header write sites"), seen == set(allowed), f"written in {sorted(seen)}")
    downgrade_paths(repo, chk)
    # read only as the sign_header argument of wrap/unwrap and in _create_alter_context
    for f in repo.funcs.values():
        for n in body_nodes(f.node):
            if isinstance(n, ast.Attribute) and n.attr == "_sign_header" and isinstance(n.ctx, ast.Load):
                ok = f.name in ("_prepare_pdu", "_process_response", "_create_alter_context")
                chk.ob("O3", Site.of(f, n), ok, "read as negotiated header signing state" if ok else f"_sign_header read in {f.qual}")


# ------------------------------------------------------------------------- O4
def _acceptance_test(repo: Repo, f: Func, chk: Check, elem_desc: str) -> None:
    """The membership test compares the *result* field of a ContextResult with ACCEPTANCE."""
    tests = [n for n in body_nodes(f.node) if isinstance(n, ast.Compare) and "ACCEPTANCE" in unparse(n)]
    site = Site.of(f, tests[0] if tests else None, None if tests else f"{f.name}: acceptance test")
    if len(tests) != 1:
        chk.ob("O4", site, False, f"{f.name} has {len(tests)} acceptance tests")
        return
    c = tests[0]
    okc = isinstance(c.ops[0], ast.Eq) and isinstance(c.left, ast.Attribute) and c.left.attr == "result" and unparse(c.comparators[0]).endswith("ContextResultCode.ACCEPTANCE")
    chk.ob("O4", site, okc, "context accepted iff result == ACCEPTANCE" if okc else f"acceptance is decided by '{unparse(c)}', not by the result field being ACCEPTANCE")


def accepted_contexts(repo: Repo, chk: Check) -> None:
    f = repo.func("_client._process_bind_result")
    chk.analysed(f)
    _acceptance_test(repo, f, chk, "bind_ack.results")
    g = build(f.node)
    src = unparse(f.node)
    loops = [n for n in body_nodes(f.node) if isinstance(n, ast.For)]
    okl = len(loops) == 1 and unparse(loops[0].iter) == f"enumerate({f.params[1]}.results)"
    chk.ob("O4", Site.of(f, loops[0] if loops else None, None if loops else "result loop"), okl, "walks the server's result list in order" if okl else "the result list is not walked with enumerate(bind_ack.results)")
    if okl:
        idx = unparse(loops[0].target.elts[0])  # type: ignore[attr-defined]
        okm = f"{f.params[0]}[{idx}]" in src and ".context_id" in src
        chk.ob("O4", Site.of(f, loops[0]), okm, "result i belongs to requested context i" if okm else "results are not matched to the requested contexts by position")
    raises = [n for n in body_nodes(f.node) if isinstance(n, ast.Raise)]
    okr = False
    for r in raises:
        nid = g.first_of_stmt.get(r)
        for c, pol in (g.guards_of(nid) if nid is not None else []):
            if isinstance(c, ast.Compare) and isinstance(c.ops[0], ast.NotIn) and unparse(c.left) == f.params[2] and pol:
                okr = True
            if isinstance(c, ast.Compare) and isinstance(c.ops[0], ast.In) and unparse(c.left) == f.params[2] and not pol:
                okr = True
    chk.ob("O4", Site.of(f, raises[0] if raises else None, None if raises else "rejection"), okr, "raises unless the desired context is among the accepted ids" if okr else "_process_bind_result does not raise when the desired context was not accepted")
    rets = [p for p, lab in g.pred[g.ret]]
    f2 = repo.method("_rpc._client.RpcClient", "_process_bind_ack")
    chk.analysed(f2)
    _acceptance_test(repo, f2, chk, "ack.results")
    del rets


def requests_after_accept(repo: Repo, chk: Check) -> None:
    for q in ("_client._sync_get_key", "_client._async_get_key"):
        f = repo.func(q)
        chk.analysed(f)
        g = build(f.node)
        rd = ReachingDefs(f, g)
        reqs = []
        for n in body_nodes(f.node):
            c = call_of(n) if isinstance(n, (ast.Call, ast.Await)) else None
            if c and c[0].endswith(".request") and isinstance(n, ast.Call):
                reqs.append((n, c))
        chk.count("request sites", len(reqs))
        for n, c in reqs:
            site = Site.of(f, n)
            nid = rd.node_of(n)
            rpc = unparse(t.cast(ast.Attribute, n.func).value)
            ctx = c[1][0] if c[1] else None
            okc, ctxv = repo.try_fold(ctx, f.mod) if ctx is not None and not isinstance(ctx, ast.Name) else (False, None)
            if isinstance(ctx, ast.Name):
                d = rd.single_def(ctx.id, n)
                if d is not None and d.value is not None:
                    okc, ctxv = repo.try_fold(d.value, f.mod)
            # dominating _process_bind_result(CTXS, ack, ctx) with ack = rpc.bind(contexts=CTXS) on the same rpc
            found = None
            for m in body_nodes(f.node):
                if isinstance(m, ast.Call) and unparse(m.func) == "_process_bind_result" and len(m.args) == 3:
                    mid = rd.node_of(m)
                    if mid is None or nid is None or not g.dominates(mid, nid):
                        continue
                    ack = m.args[1]
                    ackdef = rd.single_def(unparse(ack), m) if isinstance(ack, ast.Name) else None
                    # the ack is a local holding the bind() result, or the bind() call written in place
                    bc = call_of(ackdef.value) if ackdef is not None and ackdef.value is not None else (call_of(ack) if not isinstance(ack, ast.Name) else None)
                    if not bc or not bc[0].endswith(".bind") or unparse(t.cast(ast.Attribute, bc[3].func).value) != rpc:
                        continue
                    # same connection object: the rpc name must not be rebound between bind and request
                    if {id(d) for d in rd.reaching(rpc, bc[3])} != {id(d) for d in rd.reaching(rpc, n)}:
                        continue
                    bctx = bc[2].get("contexts") or (bc[1][0] if bc[1] else None)
                    if bctx is None or unparse(bctx) != unparse(m.args[0]):
                        continue
                    want = m.args[2]
                    okw, wv = (False, None)
                    if isinstance(want, ast.Name):
                        dd = rd.single_def(want.id, m)
                        if dd is not None and dd.value is not None:
                            okw, wv = repo.try_fold(dd.value, f.mod)
                    else:
                        okw, wv = repo.try_fold(want, f.mod)
                    if okc and okw and wv == ctxv:
                        found = m
            chk.ob("O4", site, found is not None, f"context {ctxv} was checked as accepted on this connection before the request" if found is not None else f"request on context {unparse(ctx) if ctx is not None else '?'} is not dominated by _process_bind_result(<offered>, <ack of this connection's bind>, <that context>)")


# ------------------------------------------------------------------------- O5
def rejections_surface(repo: Repo, chk: Check) -> None:
    f = repo.method("_rpc._client.RpcClient", "_process_response")
    chk.analysed(f)
    g = build(f.node)
    bad = []
    n = 0
    for path, exit_id, dec in g.paths(lambda nd: None, key=lambda nd: unparse(nd.ast)):
        if exit_id != g.ret:
            continue
        n += 1
        keys = {k: v for k, v in dec.items() if k.startswith("isinstance(")}
        nak = [v for k, v in keys.items() if k.endswith(", BindNak)")]
        flt = [v for k, v in keys.items() if k.endswith(", Fault)")]
        typ = [v for k, v in keys.items() if k.endswith(", resp_type)")]
        if not nak or nak[0] is not False:
            bad.append("a BindNak is not turned into an error")
        if not flt or flt[0] is not False:
            bad.append("a Fault is not turned into an error")
        if not typ or typ[0] is not True:
            bad.append("an unexpected PDU type is returned instead of raising")
    chk.ob("O5", Site.of(f, construct="BindNak / Fault / unexpected type raise"), not bad and n > 0, "every returning path has: not BindNak, not Fault, is resp_type" if not bad else "; ".join(sorted(set(bad))))
    # callers do not catch
    from .c16 import no_swallow

    no_swallow(repo, chk, "O5", ["_rpc._client", "_client"])


def downgrade_paths(repo: Repo, chk: Check) -> None:
    """_process_bind_ack: every returning path has examined the ack's PFC_SUPPORT_HEADER_SIGN bit; header signing is
    switched off exactly on the paths where the bit is absent (whatever else the ack carries), never touched otherwise."""
    from sa.pathsum import Summary, canon_test

    f = repo.method("_rpc._client.RpcClient", "_process_bind_ack")
    chk.analysed(f)
    summ = Summary(f, ["self", "ack", "contexts"], prune=True)
    n = 0
    for ps in summ.returning():
        n += 1
        flag: t.Optional[bool] = None
        for e, pol in ps.atoms():
            core, p2 = canon_test(ps.owner.renamed(e), pol)  # type: ignore[arg-type]
            if isinstance(core, ast.BinOp) and isinstance(core.op, ast.BitAnd):
                sides = {unparse(core.left), unparse(core.right)}
                if sides == {"ack.header.packet_flags", "PacketFlags.PFC_SUPPORT_HEADER_SIGN"}:
                    flag = p2
        writes = [e for e in ps.stores() if ps.text(e.target) == "self._sign_header"]
        site = Site.of(f, ps.exit_node, f"_process_bind_ack returns [{', '.join(sorted(ps.facts()))[:120]}]")
        if flag is None:
            chk.ob("O3", site, False, "a returning path of _process_bind_ack never examines the ack's PFC_SUPPORT_HEADER_SIGN flag: an ack without the flag (e.g. one without an auth verifier) leaves header signing on although the server did not agree to it")
        elif flag is False:
            ok = len(writes) == 1 and ps.text(writes[0].tree) == "False"
            chk.ob("O3", site, ok, "ack lacks PFC_SUPPORT_HEADER_SIGN -> header signing switched off" if ok else "the ack lacks PFC_SUPPORT_HEADER_SIGN but header signing is not switched off on this path")
        else:
            chk.ob("O3", site, not writes, "ack advertises header signing -> state untouched" if not writes else f"_sign_header is written ({[ps.text(w.tree) for w in writes]}) although the ack advertises header signing")
    chk.ob("O3", Site.of(f, construct="_process_bind_ack returning paths"), n >= 2, f"{n} returning paths")
