"""C09 - encryption names the group key of the interval containing the current time."""

from __future__ import annotations

import ast
import typing as t

from sa.cfg import build
from sa.flow import ReachingDefs
from sa.intervals import IV, World
from sa.load import AnalysisError, Func, Repo, body_nodes, unparse
from sa.report import Check, Site

BASE = 360000000000  # 3.6e11 * 100 ns = 10 hours (MS-GKDI 3.1.4.1: L2 interval)
EPOCH = 11644473600 * 10**7  # seconds between 1601-01-01 and 1970-01-01 in 100 ns units
WANT = {"l0": (32 * 32 * BASE, None), "l1": (32 * BASE, 32), "l2": (BASE, 32)}
EXACT = 1 << 53


def run(repo: Repo, chk: Check) -> None:
    chk.scope_decides = (
        "O1 no true division downstream of the clock has integer operands outside +-2^53 (interval analysis), so every quotient is exact; "
        "O2 the three index expressions normalise to floor(t / D) [mod M] with (D, M) = (368640000000000, -), (11520000000000, 32), "
        "(360000000000, 32) and t = time_ns() // 100 + 116444736000000000 with no offset or rounding; O3 a single clock read feeds all three; "
        "O4 those definitions are the arguments of the cache lookup, the targets of compute_l2_key and the fields of every envelope the function "
        "returns (a cached envelope is never returned as is)."
    )
    chk.scope_not = "that the OS clock is right."
    chk.trusted = ["time.time_ns() returns integer nanoseconds since 1970", "Python int arithmetic is exact; float division is IEEE-754 double"]
    f = repo.func("_client._get_protection_gke_from_cache")
    chk.analysed(f)
    world = World(repo)
    res = world.analyse(f)
    g = build(f.node)
    rd = ReachingDefs(f, g)
    # ---------------------------------------------------------------- O3 clock
    CLOCKS = ("time.time_ns", "time.time", "time.monotonic", "time.monotonic_ns", "datetime.datetime.now", "datetime.datetime.utcnow")

    def is_clock(fn: Func, n: ast.AST) -> bool:
        return isinstance(n, ast.Call) and repo.dotted(n.func, fn.mod) in CLOCKS

    def reads_per_call(fn: Func, depth: int = 0) -> t.Tuple[int, t.List[t.Tuple[Func, ast.Call]]]:
        """Number of clock reads one call of fn performs (helpers followed), with the read sites."""
        sites: t.List[t.Tuple[Func, ast.Call]] = []
        total = 0
        if depth > 4:
            return 0, sites
        for n in body_nodes(fn.node):
            if is_clock(fn, n):
                total += 1
                sites.append((fn, t.cast(ast.Call, n)))
            elif isinstance(n, ast.Call):
                tgt = world.resolve_call(fn, n)
                if isinstance(tgt, Func) and tgt.qual != fn.qual and tgt.mod is fn.mod:
                    k, s2 = reads_per_call(tgt, depth + 1)
                    total += k
                    sites += s2
        return total, sites

    # a clock value must be read when the call happens: never in a default argument or at module level
    for g in [x for x in repo.funcs.values() if x.mod is f.mod]:
        a = g.node.args
        for d in list(a.defaults) + [x for x in a.kw_defaults if x is not None]:
            for n in ast.walk(d):
                if is_clock(g, n):
                    chk.ob("O3", Site.of(g, n, f"default argument of {g.name}"), False, f"{unparse(n)} in a default argument is evaluated once at import: every later call names the interval of the import time")
    for name, expr in f.mod.consts.items():
        for n in ast.walk(expr):
            if isinstance(n, ast.Call) and repo.dotted(n.func, f.mod) in CLOCKS:
                chk.ob("O3", Site(f.file, "module level", getattr(n, "lineno", 0), f"{name} = {unparse(expr)[:60]}"), False, "the clock is read at import time")
    nreads, sites = reads_per_call(f)
    clocks = [c for g, c in sites]
    ok = nreads == 1 and repo.dotted(sites[0][1].func, sites[0][0].mod) == "time.time_ns"
    chk.ob("O3", Site.of(sites[0][0], clocks[0]) if sites else Site.of(f, construct="clock read"), ok, "one integer clock read time.time_ns() per call" if ok else f"{nreads} clock reads per call ({[g.name + ': ' + unparse(c) for g, c in sites]}): the three indices must come from a single time.time_ns() value, otherwise a boundary crossed between the reads yields an interval the clock was never in")
    if not sites:
        if any(not o.ok for o in chk.obligations):
            return  # already reported (e.g. the clock is read in a default argument)
        raise AnalysisError("no clock read reachable from _get_protection_gke_from_cache")
    # ---------------------------------------------------------------- O1 exact arithmetic
    divs = [n for n in body_nodes(f.node) if isinstance(n, ast.BinOp) and isinstance(n.op, ast.Div)]
    chk.count("true divisions", len(divs))
    for d in divs:
        a, b = res.iv_of(d.left), res.iv_of(d.right)
        ok = a.within(-EXACT, EXACT) and b.within(-EXACT, EXACT)
        chk.ob("O1", Site.of(f, d), ok, f"operands {a} / {b} are exactly representable: the quotient is correctly rounded and its floor is exact" if ok else f"true division of integers with operands {a} / {b}: beyond 2^53 the operand is rounded to a double first, so int(t / d) can name the next interval just before a boundary; use integer floor division")
    for n in body_nodes(f.node):
        if isinstance(n, ast.Call) and unparse(n.func) in ("round", "float", "math.floor", "math.ceil", "math.trunc") and n.args:
            inner_div = any(isinstance(x, ast.BinOp) and isinstance(x.op, ast.Div) for x in ast.walk(n))
            if unparse(n.func) in ("round", "math.ceil") or (unparse(n.func) == "float"):
                chk.ob("O1", Site.of(f, n), False, f"{unparse(n.func)}() in the interval computation: the index must be the floor of an exact quotient")
            del inner_div
    # ---------------------------------------------------------------- O2 formula
    # the definitions of l0/l1/l2 that reach the cache lookup
    gk = [n for n in body_nodes(f.node) if isinstance(n, ast.Call) and isinstance(n.func, ast.Attribute) and n.func.attr == "_get_key"]
    if len(gk) != 1 or len(gk[0].args) != 5:
        raise AnalysisError("_get_protection_gke_from_cache: cache lookup call changed")
    roles = dict(zip(("l0", "l1", "l2"), gk[0].args[2:5]))
    role_defs: t.Dict[str, t.Any] = {}
    tvar: t.Optional[str] = None
    for role, arg in roles.items():
        site = Site.of(f, arg, f"{role} = ...")
        if not isinstance(arg, ast.Name):
            chk.ob("O2", Site.of(f, gk[0]), False, f"{role} argument of the cache lookup is {unparse(arg)}")
            continue
        d = rd.single_def(arg.id, gk[0])
        if d is None or d.value is None or d.index is not None:
            chk.ob("O2", Site.of(f, gk[0]), False, f"{role} has no single definition at the cache lookup")
            continue
        role_defs[role] = d
        site = Site.of(f, d.stmt)
        nf = normal_form(repo, f, d.value)
        if nf is None:
            chk.ob("O2", site, False, f"{unparse(d.value)} is not of the form floor(t / D) [mod M]")
            continue
        tv, D, M = nf
        tvar = tvar or tv
        wantD, wantM = WANT[role]
        ok = (D, M) == (wantD, wantM) and tv == tvar
        chk.ob("O2", site, ok, f"{role} = floor({tv} / {D})" + (f" mod {M}" if M else "") if ok else f"{role} normalises to floor({tv} / {D})" + (f" mod {M}" if M else "") + f", MS-GKDI 3.1.4.1 says floor(t / {wantD})" + (f" mod {wantM}" if wantM else ""))
    chk.count("index formulas", len(role_defs))
    if not any(not o.ok for o in chk.obligations):
        chk.require_min("index formulas", 3)
    if tvar is None:
        if any(not o.ok for o in chk.obligations):
            return
        raise AnalysisError("time variable not identified")
    # t = time_ns() // 100 + EPOCH, one definition for all three
    some = next(iter(role_defs.values()))
    td = rd.single_def(tvar, some.stmt)
    okt = False
    why = f"{tvar} has no single definition"
    if td is not None and td.value is not None:
        why = f"{tvar} = {unparse(td.value)}"
        okt = is_filetime(repo, f, td.value, clocks[0])
        if not okt and isinstance(td.value, ast.Call) and not td.value.args and not td.value.keywords:
            # FILETIME computed by a helper: def h(): return time.time_ns() // 100 + EPOCH
            tgt = world.resolve_call(f, td.value)
            if isinstance(tgt, Func):
                rets_h = [n for n in body_nodes(tgt.node) if isinstance(n, ast.Return) and n.value is not None]
                okt = len(rets_h) == 1 and is_filetime(repo, tgt, rets_h[0].value, clocks[0])
    chk.ob("O2", Site.of(f, td.stmt if td is not None else None, None if td is not None else tvar), okt, "t = time_ns() // 100 + 116444736000000000 (FILETIME of now)" if okt else f"{why}: expected exactly time.time_ns() // 100 + {EPOCH} (no offset, skew allowance or rounding)")
    same = all(rd.single_def(tvar, d.stmt) is td for d in role_defs.values())
    chk.ob("O3", Site.of(f, construct="all indices computed from one time value"), same, "one definition of the time feeds L0, L1 and L2" if same else "the indices are computed from different time values")
    # ---------------------------------------------------------------- O4 propagation
    c2 = [n for n in body_nodes(f.node) if isinstance(n, ast.Call) and unparse(n.func) == "compute_l2_key"]
    okc = len(c2) == 1 and len(c2[0].args) == 4 and all(isinstance(a, ast.Name) and a.id == roles[r].id and rd.single_def(a.id, c2[0]) is role_defs.get(r) for r, a in zip(("l1", "l2"), c2[0].args[1:3]))
    chk.ob("O4", Site.of(f, c2[0] if c2 else None, None if c2 else "compute_l2_key call"), bool(okc), "the L2 key is derived for the computed (L1, L2)" if okc else "compute_l2_key is not called with the computed L1 and L2 in that order")
    rets = [n for n in body_nodes(f.node) if isinstance(n, ast.Return)]
    n_env = 0
    for r in rets:
        v = r.value
        if v is None or (isinstance(v, ast.Constant) and v.value is None):
            continue
        site = Site.of(f, r)
        if not (isinstance(v, ast.Call) and unparse(v.func) == "GroupKeyEnvelope"):
            chk.ob("O4", site, False, f"returns {unparse(v)[:60]} instead of an envelope built for the computed (L0, L1, L2): a cached envelope names its own, possibly later, interval")
            continue
        n_env += 1
        kws = {k.arg: k.value for k in v.keywords if k.arg}
        for role in ("l0", "l1", "l2"):
            a = kws.get(role)
            ok = isinstance(a, ast.Name) and isinstance(roles[role], ast.Name) and a.id == roles[role].id and rd.single_def(a.id, r) is role_defs.get(role)
            chk.ob("O4", site, ok, f"envelope.{role} is the computed {role}" if ok else f"envelope.{role} is {unparse(a) if a is not None else 'missing'}")
        lk = kws.get("l2_key")
        okl = isinstance(lk, ast.Name) and c2 and rd.single_def(lk.id, r) is not None and rd.single_def(lk.id, r).value is c2[0]  # type: ignore[union-attr]
        chk.ob("O4", site, bool(okl), "envelope.l2_key is the key derived for that position" if okl else f"envelope.l2_key is {unparse(lk) if lk is not None else 'missing'}")
    chk.ob("O4", Site.of(f, construct="returned envelopes"), n_env >= 1, f"{n_env} envelope construction(s) returned")
    # new_kek copies the position (shared with C01-O3)
    nk = repo.method("_gkdi.GroupKeyEnvelope", "new_kek")
    chk.analysed(nk)
    ki = [n for n in body_nodes(nk.node) if isinstance(n, ast.Call) and unparse(n.func) == "KeyIdentifier"]
    for c in ki:
        kws = {k.arg: k.value for k in c.keywords if k.arg}
        for role in ("l0", "l1", "l2"):
            ok = role in kws and unparse(kws[role]) == f"self.{role}"
            chk.ob("O4", Site.of(nk, c, f"KeyIdentifier({role}=...)"), ok, f"identifier.{role} = envelope.{role}" if ok else f"KeyIdentifier.{role} is {unparse(kws.get(role)) if role in kws else 'missing'}")


def _const(repo: Repo, f: Func, e: ast.expr, local: t.Dict[str, int]) -> t.Optional[int]:
    class Sub(ast.NodeTransformer):
        def visit_Name(self, node: ast.Name) -> ast.AST:
            if node.id in local:
                return ast.Constant(value=local[node.id])
            return node

    import copy

    ok, v = repo.try_fold(ast.fix_missing_locations(Sub().visit(copy.deepcopy(e))), f.mod)
    return v if ok and isinstance(v, int) and not isinstance(v, bool) else None


def _local_consts(repo: Repo, f: Func) -> t.Dict[str, int]:
    out: t.Dict[str, int] = {}
    counts: t.Dict[str, int] = {}
    for n in body_nodes(f.node):
        if isinstance(n, ast.Assign) and len(n.targets) == 1 and isinstance(n.targets[0], ast.Name):
            counts[n.targets[0].id] = counts.get(n.targets[0].id, 0) + 1
        elif isinstance(n, ast.AugAssign) and isinstance(n.target, ast.Name):
            counts[n.target.id] = counts.get(n.target.id, 0) + 2
    for n in body_nodes(f.node):
        if isinstance(n, ast.Assign) and len(n.targets) == 1 and isinstance(n.targets[0], ast.Name) and counts[n.targets[0].id] == 1:
            v = _const(repo, f, n.value, out)
            if v is not None:
                out[n.targets[0].id] = v
    return out


def normal_form(repo: Repo, f: Func, e: ast.expr) -> t.Optional[t.Tuple[str, int, t.Optional[int]]]:
    """(t, D, M) with e == floor(t / D) mod M  (M None: no modulus)."""
    local = _local_consts(repo, f)

    def quot(x: ast.expr) -> t.Optional[t.Tuple[ast.expr, int]]:
        """x == floor(num / D) -> (num, D)"""
        if isinstance(x, ast.BinOp) and isinstance(x.op, ast.FloorDiv):
            d = _const(repo, f, x.right, local)
            if d and d > 0:
                return x.left, d
        if isinstance(x, ast.Call) and unparse(x.func) in ("int", "math.floor") and len(x.args) == 1 and isinstance(x.args[0], ast.BinOp) and isinstance(x.args[0].op, ast.Div):
            d = _const(repo, f, x.args[0].right, local)
            if d and d > 0:
                return x.args[0].left, d
        if isinstance(x, ast.Subscript) and isinstance(x.value, ast.Call) and unparse(x.value.func) == "divmod" and isinstance(x.slice, ast.Constant) and x.slice.value == 0:
            d = _const(repo, f, x.value.args[1], local)
            if d and d > 0:
                return x.value.args[0], d
        return None

    # (q) % M
    if isinstance(e, ast.BinOp) and isinstance(e.op, ast.Mod):
        m = _const(repo, f, e.right, local)
        q = quot(e.left)
        if m and q and isinstance(q[0], ast.Name):
            return q[0].id, q[1], m
        return None
    q = quot(e)
    if q is None:
        return None
    num, D = q
    if isinstance(num, ast.Name):
        return num.id, D, None
    # (t % (M*D)) // D  ==  (t // D) % M
    if isinstance(num, ast.BinOp) and isinstance(num.op, ast.Mod) and isinstance(num.left, ast.Name):
        md = _const(repo, f, num.right, local)
        if md and md % D == 0:
            return num.left.id, D, md // D
    return None


def is_filetime(repo: Repo, f: Func, e: ast.expr, clock: ast.Call) -> bool:
    if not (isinstance(e, ast.BinOp) and isinstance(e.op, ast.Add)):
        return False
    for a, b in ((e.left, e.right), (e.right, e.left)):
        c = _const(repo, f, b, {})
        if c == EPOCH and isinstance(a, ast.BinOp) and isinstance(a.op, ast.FloorDiv) and a.left is clock and _const(repo, f, a.right, {}) == 100:
            return True
    return False
