"""C09 - encryption names the group key of the interval containing the current time."""

from __future__ import annotations

import ast
import typing as t

from sa.cfg import build
from sa.flow import ReachingDefs
from sa.intervals import IV, World
from sa.load import AnalysisError, Func, Repo, body_nodes, unparse
from sa.report import Check, Site

BASE = 360000000000  # 3.6e11 * 100 ns = 10 hours (MS-GKDI 3.1.4.1: L2 interval)
EPOCH = 11644473600 * 10**7  # seconds between 1601-01-01 and 1970-01-01 in 100 ns units
WANT = {"l0": (32 * 32 * BASE, None), "l1": (32 * BASE, 32), "l2": (BASE, 32)}
EXACT = 1 << 53


def run(repo: Repo, chk: Check) -> None:
    chk.scope_decides = (
        "O1 no true division downstream of the clock has integer operands outside +-2^53 (interval analysis), so every quotient is exact; "
        "O2 the three index expressions normalise to floor(t / D) [mod M] with (D, M) = (368640000000000, -), (11520000000000, 32), "
        "(360000000000, 32) and t = time_ns() // 100 + 116444736000000000 with no offset or rounding; O3 a single clock read feeds all three; "
        "O4 those definitions are the arguments of the cache lookup, the targets of compute_l2_key and the fields of every envelope the function "
        "returns (a cached envelope is never returned as is)."
    )
    chk.scope_not = "that the OS clock is right."
    chk.trusted = ["time.time_ns() returns integer nanoseconds since 1970", "Python int arithmetic is exact; float division is IEEE-754 double"]
    f = repo.func("_client._get_protection_gke_from_cache")
    chk.analysed(f)
    world = World(repo)
    res = world.analyse(f)
    g = build(f.node)
    rd = ReachingDefs(f, g)
    # ---------------------------------------------------------------- O3 clock
    CLOCKS = ("time.time_ns", "time.time", "time.monotonic", "time.monotonic_ns", "datetime.datetime.now", "datetime.datetime.utcnow")

    def is_clock(fn: Func, n: ast.AST) -> bool:
        return isinstance(n, ast.Call) and repo.dotted(n.func, fn.mod) in CLOCKS

    def reads_per_call(fn: Func, depth: int = 0) -> t.Tuple[int, t.List[t.Tuple[Func, ast.Call]]]:
        """Number of clock reads one call of fn performs (helpers followed), with the read sites."""
        sites: t.List[t.Tuple[Func, ast.Call]] = []
        total = 0
        if depth > 4:
            return 0, sites
        for n in body_nodes(fn.node):
            if is_clock(fn, n):
                total += 1
                sites.append((fn, t.cast(ast.Call, n)))
            elif isinstance(n, ast.Call):
                tgt = world.resolve_call(fn, n)
                if isinstance(tgt, Func) and tgt.qual != fn.qual and tgt.mod is fn.mod:
                    k, s2 = reads_per_call(tgt, depth + 1)
                    total += k
                    sites += s2
        return total, sites

    # a clock value must be read when the call happens: never in a default argument or at module level
    for g in [x for x in repo.funcs.values() if x.mod is f.mod]:
        a = g.node.args
        for d in list(a.defaults) + [x for x in a.kw_defaults if x is not None]:
            for n in ast.walk(d):
                if is_clock(g, n):
                    chk.ob("O3", Site.of(g, n, f"default argument of {g.name}"), False, f"{unparse(n)} in a default argument is evaluated once at import: every later call names the interval of the import time")
    for name, expr in f.mod.consts.items():
        for n in ast.walk(expr):
            if isinstance(n, ast.Call) and repo.dotted(n.func, f.mod) in CLOCKS:
                chk.ob("O3", Site(f.file, "module level", getattr(n, "lineno", 0), f"{name} = {unparse(expr)[:60]}"), False, "the clock is read at import time")
    nreads, sites = reads_per_call(f)
    clocks = [c for g, c in sites]
    ok = nreads == 1 and repo.dotted(sites[0][1].func, sites[0][0].mod) == "time.time_ns"
    chk.ob("O3", Site.of(sites[0][0], clocks[0]) if sites else Site.of(f, construct="clock read"), ok, "one integer clock read time.time_ns() per call" if ok else f"{nreads} clock reads per call ({[g.name + ': ' + unparse(c) for g, c in sites]}): the three indices must come from a single time.time_ns() value, otherwise a boundary crossed between the reads yields an interval the clock was never in")
    if not sites:
        if any(not o.ok for o in chk.obligations):
            return  # already reported (e.g. the clock is read in a default argument)
        raise AnalysisError("no clock read reachable from _get_protection_gke_from_cache")
    # ---------------------------------------------------------------- O1 exact arithmetic
    divs = [n for n in body_nodes(f.node) if isinstance(n, ast.BinOp) and isinstance(n.op, ast.Div)]
    chk.count("true divisions", len(divs))
    for d in divs:
        a, b = res.iv_of(d.left), res.iv_of(d.right)
        ok = a.within(-EXACT, EXACT) and b.within(-EXACT, EXACT)
        chk.ob("O1", Site.of(f, d), ok, f"operands {a} / {b} are exactly representable: the quotient is correctly rounded and its floor is exact" if ok else f"true division of integers with operands {a} / {b}: beyond 2^53 the operand is rounded to a double first, so int(t / d) can name the next interval just before a boundary; use integer floor division")
    for n in body_nodes(f.node):
        if isinstance(n, ast.Call) and unparse(n.func) in ("round", "float", "math.floor", "math.ceil", "math.trunc") and n.args:
            inner_div = any(isinstance(x, ast.BinOp) and isinstance(x.op, ast.Div) for x in ast.walk(n))
            if unparse(n.func) in ("round", "math.ceil") or (unparse(n.func) == "float"):
                chk.ob("O1", Site.of(f, n), False, f"{unparse(n.func)}() in the interval computation: the index must be the floor of an exact quotient")
            del inner_div
    # ---------------------------------------------------------------- O2 formula / O3 one time value / O4 propagation
    from sa.pathsum import Summary

    from .util import ev_args

    summ = Summary(f, ["root_key_identifier", "target_sd", "cache"])
    clock_uid = getattr(clocks[0], "_uid", None) if sites[0][0] is f else None
    n_lookup = 0
    n_env = 0
    for ps in summ.paths:
        gk = ps.calls("_get_key")
        if not gk:
            if ps.exit == "return" and not (isinstance(ps.value, ast.Constant) and ps.value.value is None):
                chk.ob("O4", Site.of(f, ps.exit_node), False, f"returns {ps.text(ps.value)[:60]} on a path without a cache lookup for the computed position")
            continue
        if len(gk) != 1:
            raise AnalysisError("_get_protection_gke_from_cache: cache lookup call changed")
        n_lookup += 1
        ga = ev_args(repo, f, gk[0])
        roles = {r: ga.get(r) for r in ("l0", "l1", "l2")}
        tkeys = set()
        for role, tree in roles.items():
            site = Site.of(f, gk[0].node, f"{role} of the cache lookup")
            if tree is None:
                chk.ob("O2", site, False, f"the cache lookup has no {role} argument")
                continue
            q = quotient_form(repo, f, tree)
            if q is None:
                chk.ob("O2", site, False, f"{ps.text(tree)} is not of the form floor(t / D) [mod M] over t = time_ns() // 100 + {EPOCH}")
                continue
            tkey, D, M = q
            tkeys.add(tkey)
            chk.count("index formulas")
            wantD, wantM = WANT[role]
            ok = (D, M) == (wantD, wantM)
            chk.ob("O2", site, ok, f"{role} = floor(t / {D})" + (f" mod {M}" if M else "") if ok else f"{role} normalises to floor(t / {D})" + (f" mod {M}" if M else "") + f", MS-GKDI 3.1.4.1 says floor(t / {wantD})" + (f" mod {wantM}" if wantM else ""))
        same = len(tkeys) == 1
        chk.ob("O3", Site.of(f, gk[0].node, "all indices computed from one time value"), same, "one time value (a single clock read) feeds L0, L1 and L2" if same else f"the indices are computed from {len(tkeys)} different time values")
        # O4: compute_l2_key targets and returned envelope fields are those very values
        c2 = ps.calls("compute_l2_key")
        K = ps.key
        if ps.exit != "return" or (isinstance(ps.value, ast.Constant) and ps.value.value is None):
            continue
        v = ps.value
        site = Site.of(f, ps.exit_node)
        if not (isinstance(v, ast.Call) and ps.text(v.func) == "GroupKeyEnvelope"):
            chk.ob("O4", site, False, f"returns {ps.text(v)[:60]} instead of an envelope built for the computed (L0, L1, L2): a cached envelope names its own, possibly later, interval")
            continue
        n_env += 1
        ca = ev_args(repo, f, c2[0]) if len(c2) == 1 else {}
        okc = len(c2) == 1 and all(roles[r] is not None and ca.get(p_) is not None and K(ca[p_]) == K(roles[r]) for r, p_ in (("l1", "request_l1"), ("l2", "request_l2")))
        chk.ob("O4", Site.of(f, c2[0].node if c2 else None, None if c2 else "compute_l2_key call"), bool(okc), "the L2 key is derived for the computed (L1, L2)" if okc else "compute_l2_key is not called with the computed L1 and L2 in that order")
        from .util import args_of

        kws = args_of(repo, f, v)
        for role in ("l0", "l1", "l2"):
            a = kws.get(role)
            ok = a is not None and roles[role] is not None and K(a) == K(roles[role])
            chk.ob("O4", site, ok, f"envelope.{role} is the computed {role}" if ok else f"envelope.{role} is {ps.text(a) if a is not None else 'missing'}")
        lk = kws.get("l2_key")
        okl = lk is not None and len(c2) == 1 and K(lk) == K(c2[0].tree)
        chk.ob("O4", site, bool(okl), "envelope.l2_key is the key derived for that position" if okl else f"envelope.l2_key is {ps.text(lk) if lk is not None else 'missing'}")
    if n_lookup == 0:
        raise AnalysisError("_get_protection_gke_from_cache: cache lookup call changed")
    if not any(not o.ok for o in chk.obligations):
        chk.require_min("index formulas", 3)
    chk.ob("O4", Site.of(f, construct="returned envelopes"), n_env >= 1, f"{n_env} envelope construction(s) returned")
    del clock_uid
    # new_kek copies the position (shared with C01-O3)
    nk = repo.method("_gkdi.GroupKeyEnvelope", "new_kek")
    chk.analysed(nk)
    for ps in Summary(nk, ["self"]).returning():
        for c in [c for c in ps.calls("KeyIdentifier") if ps.text(t.cast(ast.Call, c.tree).func) == "KeyIdentifier"]:
            kws2 = ev_args(repo, nk, c)
            for role in ("l0", "l1", "l2"):
                ok = role in kws2 and ps.text(kws2[role]) == f"self.{role}"
                chk.ob("O4", Site.of(nk, c.node, f"KeyIdentifier({role}=...)"), ok, f"identifier.{role} = envelope.{role}" if ok else f"KeyIdentifier.{role} is {ps.text(kws2.get(role)) if role in kws2 else 'missing'}")


def quotient_form(repo: Repo, f: Func, e: ast.expr) -> t.Optional[t.Tuple[str, int, t.Optional[int]]]:
    """e, an expression over a single clock read, as (identity of t, D, M) with e == floor(t / D) [mod M] where
    t = time.time_ns() // 100 + EPOCH.  The algebra: with Q(D, M) = floor(t / D) mod M (M None: no modulus)
        t = Q(1, None);  Q(D, None) // k = Q(D k, None);  Q(D, M) // k = Q(D k, M / k) if k | M;
        Q(D, None) % m = Q(D, m);  Q(D, M) % m = Q(D, m) if m | M;  int(a / k) = math.floor(a / k) = a // k (exactness is O1);
        divmod(a, k)[0] = a // k;  divmod(a, k)[1] = a % k;  a >> k = a // 2^k;  a & (2^k - 1) = a % 2^k.
    Anything else (offsets, rounding, other operators) is not a floor-quotient of the current time."""
    from sa.flow import tag_tree
    import copy

    def const(x: ast.expr) -> t.Optional[int]:
        return _const(repo, f, x, {})

    def ev(x: ast.expr) -> t.Optional[t.Tuple[str, int, t.Optional[int]]]:
        if is_filetime_tree(repo, f, x):
            return unparse(tag_tree(copy.deepcopy(x))), 1, None
        if isinstance(x, ast.BinOp) and isinstance(x.op, ast.FloorDiv):
            return div(ev(x.left), const(x.right))
        if isinstance(x, ast.BinOp) and isinstance(x.op, ast.Mod):
            return mod(ev(x.left), const(x.right))
        # bit fields of the cycle counter: a >> k = a // 2^k and a & (2^k - 1) = a % 2^k for every Python int
        if isinstance(x, ast.BinOp) and isinstance(x.op, ast.RShift):
            k = const(x.right)
            return div(ev(x.left), 1 << k) if k is not None and 0 <= k < 64 else None
        if isinstance(x, ast.BinOp) and isinstance(x.op, ast.BitAnd):
            for a_, b_ in ((x.left, x.right), (x.right, x.left)):
                m_ = const(b_)
                if m_ is not None and m_ > 0 and (m_ & (m_ + 1)) == 0:
                    return mod(ev(a_), m_ + 1)
            return None
        if isinstance(x, ast.Call) and unparse(x.func) in ("int", "math.floor") and len(x.args) == 1 and not x.keywords:
            a = x.args[0]
            if isinstance(a, ast.BinOp) and isinstance(a.op, ast.Div):
                return div(ev(a.left), const(a.right))
            return ev(a) if unparse(x.func) == "int" else None
        if isinstance(x, ast.Subscript) and isinstance(x.value, ast.Call) and unparse(x.value.func) == "divmod" and len(x.value.args) == 2 and isinstance(x.slice, ast.Constant):
            a, k = ev(x.value.args[0]), const(x.value.args[1])
            return div(a, k) if x.slice.value == 0 else mod(a, k) if x.slice.value == 1 else None
        return None

    def div(q: t.Optional[t.Tuple[str, int, t.Optional[int]]], k: t.Optional[int]) -> t.Optional[t.Tuple[str, int, t.Optional[int]]]:
        if q is None or not k or k <= 0:
            return None
        tk, D, M = q
        if M is None:
            return tk, D * k, None
        if M % k == 0:
            return tk, D * k, M // k
        return None

    def mod(q: t.Optional[t.Tuple[str, int, t.Optional[int]]], m: t.Optional[int]) -> t.Optional[t.Tuple[str, int, t.Optional[int]]]:
        if q is None or not m or m <= 0:
            return None
        tk, D, M = q
        if M is None or M % m == 0:
            return tk, D, m
        return None

    return ev(e)


def is_filetime_tree(repo: Repo, f: Func, e: ast.expr) -> bool:
    """time.time_ns() // 100 + EPOCH (either operand order)."""
    if not (isinstance(e, ast.BinOp) and isinstance(e.op, ast.Add)):
        return False
    for a, b in ((e.left, e.right), (e.right, e.left)):
        c = _const(repo, f, b, {})
        if c == EPOCH and isinstance(a, ast.BinOp) and isinstance(a.op, ast.FloorDiv) and isinstance(a.left, ast.Call) and repo.dotted(a.left.func, f.mod) == "time.time_ns" and _const(repo, f, a.right, {}) == 100:
            return True
    return False


def _const(repo: Repo, f: Func, e: ast.expr, local: t.Dict[str, int]) -> t.Optional[int]:
    class Sub(ast.NodeTransformer):
        def visit_Name(self, node: ast.Name) -> ast.AST:
            if node.id in local:
                return ast.Constant(value=local[node.id])
            return node

    import copy

    ok, v = repo.try_fold(ast.fix_missing_locations(Sub().visit(copy.deepcopy(e))), f.mod)
    return v if ok and isinstance(v, int) and not isinstance(v, bool) else None


def _local_consts(repo: Repo, f: Func) -> t.Dict[str, int]:
    out: t.Dict[str, int] = {}
    counts: t.Dict[str, int] = {}
    for n in body_nodes(f.node):
        if isinstance(n, ast.Assign) and len(n.targets) == 1 and isinstance(n.targets[0], ast.Name):
            counts[n.targets[0].id] = counts.get(n.targets[0].id, 0) + 1
        elif isinstance(n, ast.AugAssign) and isinstance(n.target, ast.Name):
            counts[n.target.id] = counts.get(n.target.id, 0) + 2
    for n in body_nodes(f.node):
        if isinstance(n, ast.Assign) and len(n.targets) == 1 and isinstance(n.targets[0], ast.Name) and counts[n.targets[0].id] == 1:
            v = _const(repo, f, n.value, out)
            if v is not None:
                out[n.targets[0].id] = v
    return out


def normal_form(repo: Repo, f: Func, e: ast.expr) -> t.Optional[t.Tuple[str, int, t.Optional[int]]]:
    """(t, D, M) with e == floor(t / D) mod M  (M None: no modulus)."""
    local = _local_consts(repo, f)

    def quot(x: ast.expr) -> t.Optional[t.Tuple[ast.expr, int]]:
        """x == floor(num / D) -> (num, D)"""
        if isinstance(x, ast.BinOp) and isinstance(x.op, ast.FloorDiv):
            d = _const(repo, f, x.right, local)
            if d and d > 0:
                return x.left, d
        if isinstance(x, ast.Call) and unparse(x.func) in ("int", "math.floor") and len(x.args) == 1 and isinstance(x.args[0], ast.BinOp) and isinstance(x.args[0].op, ast.Div):
            d = _const(repo, f, x.args[0].right, local)
            if d and d > 0:
                return x.args[0].left, d
        if isinstance(x, ast.Subscript) and isinstance(x.value, ast.Call) and unparse(x.value.func) == "divmod" and isinstance(x.slice, ast.Constant) and x.slice.value == 0:
            d = _const(repo, f, x.value.args[1], local)
            if d and d > 0:
                return x.value.args[0], d
        return None

    # (q) % M
    if isinstance(e, ast.BinOp) and isinstance(e.op, ast.Mod):
        m = _const(repo, f, e.right, local)
        q = quot(e.left)
        if m and q and isinstance(q[0], ast.Name):
            return q[0].id, q[1], m
        return None
    q = quot(e)
    if q is None:
        return None
    num, D = q
    if isinstance(num, ast.Name):
        return num.id, D, None
    # (t % (M*D)) // D  ==  (t // D) % M
    if isinstance(num, ast.BinOp) and isinstance(num.op, ast.Mod) and isinstance(num.left, ast.Name):
        md = _const(repo, f, num.right, local)
        if md and md % D == 0:
            return num.left.id, D, md // D
    return None


def is_filetime(repo: Repo, f: Func, e: ast.expr, clock: ast.Call) -> bool:
    if not (isinstance(e, ast.BinOp) and isinstance(e.op, ast.Add)):
        return False
    for a, b in ((e.left, e.right), (e.right, e.left)):
        c = _const(repo, f, b, {})
        if c == EPOCH and isinstance(a, ast.BinOp) and isinstance(a.op, ast.FloorDiv) and a.left is clock and _const(repo, f, a.right, {}) == 100:
            return True
    return False
