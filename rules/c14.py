"""C14 - replies reassemble identically under any TCP segmentation; EOF is an error."""

from __future__ import annotations

import ast
import typing as t

from sa import layout
from sa.cfg import build
from sa.intervals import World
from sa.load import AnalysisError, Func, Repo, body_nodes, unparse
from sa.loops import LoopChecker
from sa.report import Check, Site
from sa.sym import Lin
from sa.symeval import CallVal, SBuf, SCat, SView, TRef

from . import codecs

# transport reads: method name -> may return fewer bytes than asked for / zero bytes at EOF
SHORT_READS = {"recv", "recv_into", "recvfrom", "recvfrom_into", "recvmsg", "read", "read1", "readinto", "readline", "readuntil"}
EXACT_READS = {"readexactly"}  # asyncio.StreamReader.readexactly: exactly n bytes or IncompleteReadError
TRANSPORT_ATTRS = {"_sock", "_reader"}


def run(repo: Repo, chk: Check) -> None:
    chk.scope_decides = (
        "O1 every read from the transport is either StreamReader.readexactly or sits in a read-until-complete loop with a progress "
        "certificate whose only normal exit is 'buffer full' and whose zero-byte (EOF) branch raises; the header buffer decoded by "
        "PDUHeader.unpack has exactly the header size and is completely received; the reply buffer has frag_len bytes and is covered "
        "exactly by header copy + body read. O2 both transports hand _process_response the same (buffer, header, type, offsets)."
    )
    chk.scope_not = "'promptly' as a time bound; kernel/asyncio behaviour beyond the stated summaries of recv_into and readexactly."
    chk.trusted = ["socket.recv_into returns 0 only at EOF and otherwise the number of bytes stored (>= 1)", "asyncio.StreamReader.readexactly returns exactly n bytes or raises IncompleteReadError"]
    world = World(repo)
    helpers = transport_reads(repo, chk, world)
    helpers_seen = set(helpers)
    from sa.symeval import Unsupported

    for q in ("_rpc._client.SyncRpcClient._send_pdu", "_rpc._client.AsyncRpcClient._send_pdu"):
        try:
            reassembly(repo, chk, repo.func(q), helpers)
        except Unsupported as e:
            if any(not o.ok and (o.site.function == q or o.site.function in helpers_seen or o.site.function.startswith("_rpc._client.")) for o in chk.obligations):
                chk.count("reassembly paths")
                continue  # the transport-read rule already reported a read of this module; the body left the idiom table
            raise AnalysisError(f"{q} left the idiom table: {e}")
    chk.require_min("transport read sites", 3)
    chk.require_min("reassembly paths", 2)


def _transport_call(n: ast.AST) -> t.Optional[t.Tuple[str, str]]:
    if isinstance(n, ast.Call) and isinstance(n.func, ast.Attribute) and isinstance(n.func.value, ast.Attribute):
        recv = n.func.value
        if isinstance(recv.value, ast.Name) and recv.value.id == "self" and recv.attr in TRANSPORT_ATTRS:
            return recv.attr, n.func.attr
    return None


def transport_reads(repo: Repo, chk: Check, world: World) -> t.Dict[str, str]:
    """Classify every read on self._sock / self._reader in _rpc._client.  Returns the helpers with the summary
    'fills its view argument completely or raises'."""
    helpers: t.Dict[str, str] = {}
    REGIONS.clear()
    INLINE.clear()
    mod = repo.mod("_rpc._client")
    for f in [x for x in repo.funcs.values() if x.mod is mod]:
        # a read method of the transport taken as a value (functools.partial(self._sock.recv, n), iter(.., b""), map ..) is a
        # read whose result nobody here can follow: only direct calls in the certified forms below are complete reads
        called = {id(n.func) for n in body_nodes(f.node) if isinstance(n, ast.Call)}
        for n in body_nodes(f.node):
            if isinstance(n, ast.Attribute) and id(n) not in called and isinstance(n.value, ast.Attribute) and isinstance(n.value.value, ast.Name) and n.value.value.id == "self" and n.value.attr in TRANSPORT_ATTRS and (n.attr in SHORT_READS or n.attr in EXACT_READS):
                chk.analysed(f)
                chk.count("transport read sites")
                chk.ob("O1", Site.of(f, n), False, f"self.{n.value.attr}.{n.attr} is passed on as a value instead of being called: a read whose completeness (short reads, EOF) cannot be certified")
        for n in body_nodes(f.node):
            tc = _transport_call(n)
            if tc is None or (tc[1] not in SHORT_READS and tc[1] not in EXACT_READS):
                continue
            chk.analysed(f)
            chk.count("transport read sites")
            site = Site.of(f, n)
            if tc[1] in EXACT_READS:
                chk.ob("O1", site, True, "readexactly: exact-or-raise")
                continue
            why = fill_exact(world, f, t.cast(ast.Call, n))
            if why.startswith("ok:"):
                helpers[f.qual] = why[3:]
                chk.ob("O1", site, True, why[3:])
            else:
                chk.ob("O1", site, False, why)
    return helpers


def fill_exact(world: World, f: Func, call: ast.Call) -> str:
    """`call` is recv_into(V)/similar.  Certify: it sits in `while V:` over a name V with a V-CONSUME certificate,
    and every normal return of f leaves that loop through its exhausted (False) edge."""
    name = t.cast(ast.Attribute, call.func).attr
    if name not in ("recv_into", "readinto"):
        return f"the result of {name}() may be short (TCP delivers any prefix, b'' at EOF) and is not accumulated by a read-until-complete loop"
    from .util import prov_text

    if not call.args:
        return f"{name}() without a target buffer"
    tgt = call.args[0]
    loops = [n for n in body_nodes(f.node) if isinstance(n, ast.While) and any(x is call for x in ast.walk(n))]
    if not loops:
        return f"{name}({unparse(tgt)}) is not inside a loop: a short read leaves the buffer partly filled"
    loop = loops[-1]
    cert = [c for c in LoopChecker(world, f).all() if c.node is loop]
    off_name: t.Optional[str] = None
    if isinstance(tgt, ast.Name):
        # shape A: while v: n = recv_into(v); ...; v = v[n:]
        v = tgt.id
        if not (isinstance(loop.test, ast.Name) and loop.test.id == v):
            return f"the loop around {name}({v}) does not run until {v} is exhausted (condition: {unparse(loop.test)})"
        if not cert or cert[0].kind != "V-CONSUME":
            return f"no progress certificate for the read loop: {cert[0].why if cert else 'loop not found'} (a zero byte read at EOF spins forever)"
    elif isinstance(tgt, ast.Subscript) and isinstance(tgt.value, ast.Name) and isinstance(tgt.slice, ast.Slice) and tgt.slice.upper is None and tgt.slice.step is None and isinstance(tgt.slice.lower, ast.Name):
        # shape B: while off < len(v): n = recv_into(v[off:]); ...; off += n
        v, off = tgt.value.id, tgt.slice.lower.id
        off_name = off
        # v[off:] must be a window of the caller's buffer: slicing a bytearray / bytes copies, recv_into would fill a temporary
        kind_v = None
        for a in f.node.args.posonlyargs + f.node.args.args + f.node.args.kwonlyargs:
            if a.arg == v and a.annotation is not None:
                kind_v = unparse(a.annotation)
        if kind_v is None:
            defs_v = [n.value for n in body_nodes(f.node) if isinstance(n, ast.Assign) and any(isinstance(x, ast.Name) and x.id == v for x in n.targets)]
            withs_v = [i.context_expr for n in body_nodes(f.node) if isinstance(n, ast.With) for i in n.items if isinstance(i.optional_vars, ast.Name) and i.optional_vars.id == v]
            srcs = defs_v + withs_v
            if srcs and all(isinstance(x, ast.Call) and unparse(x.func) == "memoryview" or (isinstance(x, ast.Subscript) and isinstance(x.value, ast.Call) and unparse(x.value.func) == "memoryview") for x in srcs):
                kind_v = "memoryview"
        if kind_v is None or kind_v.rsplit(".", 1)[-1] != "memoryview":
            return f"{name}({v}[{off}:]) with {v} declared as {kind_v or 'an untyped value'}: slicing anything but a memoryview copies, so the bytes read land in a temporary and {v} stays unfilled after the first short read"
        t_ = loop.test
        lenv = ast.copy_location(ast.Call(func=ast.Name(id="len", ctx=ast.Load()), args=[ast.Name(id=v, ctx=ast.Load())], keywords=[]), loop.test)
        want_len = {f"len({v})", prov_text(f, lenv, t_)}

        def is_len(x: ast.expr) -> bool:
            return unparse(x) in want_len or prov_text(f, x, t_) in want_len

        okt = isinstance(t_, ast.Compare) and len(t_.ops) == 1 and ((isinstance(t_.ops[0], ast.Lt) and unparse(t_.left) == off and is_len(t_.comparators[0])) or (isinstance(t_.ops[0], ast.Gt) and unparse(t_.comparators[0]) == off and is_len(t_.left)) or (isinstance(t_.ops[0], ast.NotEq) and ((unparse(t_.left) == off and is_len(t_.comparators[0])) or (unparse(t_.comparators[0]) == off and is_len(t_.left)))))
        if not okt:
            return f"the loop around {name}({v}[{off}:]) does not run until {off} reaches len({v}) (condition: {unparse(loop.test)})"
        if any(isinstance(n, (ast.Assign, ast.AugAssign)) and v in [unparse(x) for x in (n.targets if isinstance(n, ast.Assign) else [n.target])] for n in ast.walk(loop)):
            return f"{v} is rebound inside the read loop"
        if not cert or cert[0].kind != "V-COUNT-UP":
            return f"no progress certificate for the read loop: {cert[0].why if cert else 'loop not found'} (a zero byte read at EOF spins forever)"
    else:
        return f"{name}() target {unparse(tgt)} is neither a view name nor view[offset:]"
    g = build(f.node)
    cond_ids = [n.id for n in g.nodes if n.kind == "cond" and n.stmt is loop and n.ast is loop.test]
    if not cond_ids:
        return "loop condition node not found"
    cid = cond_ids[0]
    nret = 0
    for path, exit_id, _ in g.paths(lambda n: None, sticky=False, loop_bound=3):
        if exit_id != g.ret:
            continue
        nret += 1
        labels = g.path_labels
        last = max((i for i, x in enumerate(path) if x == cid), default=None)
        if last is None or last >= len(labels) or labels[last] is not False:
            return f"a normal return of {f.name} leaves the read loop before {v} is full (break/return inside the loop): a truncated buffer is handed on silently"
    if nret == 0:
        return f"{f.name} has no normal return"
    # shape B counts from the initial value of its offset variable: a parameter (the window starts there) or a local 0
    start_b: t.Optional[ast.expr] = None
    local_start = False
    if off_name is not None:
        inside_b = {id(n) for n in ast.walk(loop)}
        if off_name in f.params:
            if any(isinstance(n, (ast.Assign, ast.AnnAssign)) and off_name in [unparse(x) for x in (n.targets if isinstance(n, ast.Assign) else [n.target])] for n in body_nodes(f.node)) or any(isinstance(n, ast.AugAssign) and unparse(n.target) == off_name and id(n) not in inside_b for n in body_nodes(f.node)):
                return f"the offset parameter {off_name} is rebound outside the read loop"
            start_b = ast.Name(id=off_name, ctx=ast.Load())
        else:
            inits = [n for n in body_nodes(f.node) if isinstance(n, ast.Assign) and id(n) not in inside_b and off_name in [unparse(x) for x in n.targets]]
            if len(inits) != 1 or not (isinstance(inits[0].value, ast.Constant) and inits[0].value.value == 0):
                local_start = True  # fine for a loop written in line (its window is computed from the state), not for a helper summary
    if v not in f.params:
        reg = _derived_view(f, v, loop)
        if reg is not None and local_start:
            return f"the read loop counts from {off_name}, which does not start at 0"
        if reg is not None and start_b is not None:
            reg = (reg[0], start_b) if reg[1] is None else None
        if reg is not None:
            REGIONS[f.qual] = reg
            return f"ok:{f.name}({reg[0]}) fills {reg[0]}[{unparse(reg[1]) if reg[1] is not None else ''}:] completely or raises ({cert[0].why})"
        INLINE.setdefault(f.qual, []).append((loop, v, off_name))
        return "ok:inline read-until-complete loop (EOF raises, exit only when full)"
    if local_start:
        return f"the read loop counts from {off_name}, which does not start at 0"
    REGIONS[f.qual] = (v, start_b)
    return f"ok:{f.name}({v}) fills {v}[{unparse(start_b) if start_b is not None else ''}:] completely or raises ({cert[0].why})"


# helper -> (buffer parameter, start offset expression over the helper's parameters or None): the window the helper fills
REGIONS: t.Dict[str, t.Tuple[str, t.Optional[ast.expr]]] = {}
# function -> [(loop statement, view name, offset variable or None)]: certified read-until-complete loops written in line
INLINE: t.Dict[str, t.List[t.Tuple[ast.While, str, t.Optional[str]]]] = {}


def _before(f: Func, a: ast.AST, b: ast.AST) -> bool:
    """a is written before b in the (normalised) function body - inlined statements keep their helper's line numbers."""
    from .util import source_order

    so = source_order(f)
    return so.get(id(a), 1 << 30) < so.get(id(b), -1)


def inline_windows(f: Func, st: t.Any) -> t.List[t.Tuple[t.Any, ast.AST]]:
    """Windows (SView) that certified in-line read loops of f have filled on this path, with the loop statement."""
    out: t.List[t.Tuple[t.Any, ast.AST]] = []
    for loop, views, offsets in getattr(st, "windows", []):
        for lp, v, off in INLINE.get(f.qual, []):
            if lp is not loop:
                continue
            if off is None and isinstance(views.get(v), SView):
                out.append((views[v], loop))
            elif off is not None and off in offsets:
                off0, view = offsets[off]
                if isinstance(view, SView) and isinstance(off0, Lin):
                    out.append((SView(view.src, view.lo + off0, view.hi), loop))
    return out


def _derived_view(f: Func, v: str, loop: ast.While) -> t.Optional[t.Tuple[str, t.Optional[ast.expr]]]:
    """v is a local filled to exhaustion by `loop`.  When its only definition outside the loop is a window of a
    parameter buffer - memoryview(P), P[a:], memoryview(P)[a:] with `a` a parameter or constant - return (P, a)."""
    inside = {id(n) for n in ast.walk(loop)}
    defs = [n for n in body_nodes(f.node) if isinstance(n, (ast.Assign, ast.AnnAssign)) and id(n) not in inside and v in [unparse(x) for x in (n.targets if isinstance(n, ast.Assign) else [n.target])]]
    # `with memoryview(P) as v:` at the top of the function is a definition of v as well (the loop lives in its body)
    withs = [i.context_expr for n in f.node.body if isinstance(n, ast.With) for i in n.items if isinstance(i.optional_vars, ast.Name) and i.optional_vars.id == v]
    if not defs and len(withs) == 1:
        e: ast.expr = withs[0]
    elif len(defs) != 1 or defs[0].value is None or defs[0] not in f.node.body or withs:
        return None
    else:
        e = defs[0].value
    off: t.Optional[ast.expr] = None
    while True:
        if isinstance(e, ast.Call) and isinstance(e.func, ast.Name) and e.func.id == "memoryview" and len(e.args) == 1 and not e.keywords:
            e = e.args[0]
        elif isinstance(e, ast.Subscript) and isinstance(e.slice, ast.Slice) and e.slice.upper is None and e.slice.step is None and off is None:
            off = e.slice.lower
            e = e.value
        else:
            break
    if not (isinstance(e, ast.Name) and e.id in f.params):
        return None
    if off is not None and not (isinstance(off, ast.Name) and off.id in f.params or isinstance(off, ast.Constant) and isinstance(off.value, int) and off.value >= 0):
        return None
    for n in body_nodes(f.node):
        if isinstance(n, (ast.Assign, ast.AugAssign, ast.AnnAssign)):
            for tg in (n.targets if isinstance(n, ast.Assign) else [n.target]):
                if unparse(tg) in (e.id, unparse(off) if off is not None else ""):
                    return None  # the buffer / offset parameter is rebound
    return e.id, off


def filled_window(c: t.Any) -> t.Any:
    """The window of the caller's buffer that the call `c` to a read-until-complete helper fills (SView) or None."""
    if c.func is None or c.func.qual not in REGIONS:
        return None
    bufp, off = REGIONS[c.func.qual]
    params = [p for p in c.func.params if p != "self"]

    def val(name: str) -> t.Any:
        v = c.arg(params.index(name), name)
        if v is None:
            a = c.func.node.args
            pos = list(a.posonlyargs) + list(a.args)
            names = [x.arg for x in pos]
            d = dict(zip(names[len(names) - len(a.defaults):], a.defaults))
            dv = d.get(name)
            if isinstance(dv, ast.Constant) and isinstance(dv.value, int) and not isinstance(dv.value, bool):
                return Lin(dv.value)
        return v

    b = val(bufp)
    o: t.Any = Lin(0)
    if isinstance(off, ast.Constant):
        o = Lin(off.value)
    elif isinstance(off, ast.Name):
        o = val(off.id)
    if not isinstance(o, Lin):
        return None
    if isinstance(b, SBuf):
        b = SView(f"buf#{b.bid}", Lin(0), b.size)
    if isinstance(b, SView):
        if o.is_const() and o.const < 0:
            return None
        return SView(b.src, b.lo + o, b.hi)
    return None


def reassembly(repo: Repo, chk: Check, f: Func, helpers: t.Dict[str, str]) -> None:
    chk.analysed(f)
    hdr_cls = repo.cls("_rpc._pdu.PDUHeader")
    hsz = codecs.sizes_of(repo).size(hdr_cls)
    if hsz is None or not hsz.is_const():
        raise AnalysisError("size of PDUHeader is not a constant")
    n = 0
    for st, out in layout.Interp(repo, f).run(layout.self_state(repo, f)):
        if out.kind != "return":
            continue
        n += 1
        chk.count("reassembly paths")
        calls = st.calls
        up = [c for c in calls if c.name.endswith("PDUHeader.unpack")]
        pr = [c for c in calls if c.name.endswith("._process_response")]
        site_f = Site.of(f, construct=f"{f.name}: reply reassembly")
        if len(up) != 1 or len(pr) != 1 or getattr(out.value, "rec", None) is not pr[0]:
            chk.ob("O1", site_f, False, "the path does not decode one header and return _process_response(...)")
            continue
        hcall, pcall = up[0], pr[0]
        harg = hcall.arg(0)
        # ---- header bytes: completely received, exactly the header size
        hok, hwhy = received_exactly(harg, hsz, calls, hcall, helpers)
        if not hok and isinstance(harg, SBuf):
            for w, _lp in inline_windows(f, st):
                if w.src == f"buf#{harg.bid}" and w.lo == 0 and w.hi == harg.size and harg.size == hsz and _before(f, _lp, hcall.node):
                    hok, hwhy = True, f"header buffer of {hsz!r} bytes filled by the read loop before decoding"
        chk.ob("O1", Site.of(f, hcall.node), hok, hwhy)
        # ---- reply buffer
        resp = pcall.arg(0)
        frag = Lin.atom(("field", f"{hcall.result!r}.frag_len"))
        if isinstance(resp, SCat):
            # reply grown piece by piece: the header bytes as received, then complete transport reads, frag_len in all
            cur = Lin(0)
            okp = True
            whyp = ""
            for i, part in enumerate(resp.parts):
                if i == 0:
                    if same_value(part, harg) and hok:
                        cur = hsz
                        continue
                    okp, whyp = False, f"the reply starts with {part!r}, not with the header bytes as they were received ({harg!r}): what is verified and parsed is not what arrived"
                    break
                if isinstance(part, CallVal) and part.rec.name.endswith("readexactly") and isinstance(part.rec.arg(0), Lin):
                    cur = cur + part.rec.arg(0)
                    continue
                okp, whyp = False, f"reply piece {i} is {part!r}, which is not a complete transport read"
                break
            if okp and not (cur == frag):
                okp, whyp = False, f"the pieces add up to {cur!r} bytes, the decoded header says frag_len"
            chk.ob("O1", Site.of(f, pcall.node, f"{f.name}: coverage of the reply buffer"), okp, "reply = received header + complete body read(s), frag_len bytes in all" if okp else whyp)
            a1, a2, a3 = pcall.arg(1), pcall.arg(2), pcall.arg(3)
            rt_name = f.params[2] if len(f.params) > 2 else "resp_type"
            eo_name = f.params[3] if len(f.params) > 3 else "encrypt_offsets"
            ok2 = a1 is hcall.result and isinstance(a2, TRef) and a2.path == rt_name and isinstance(a3, TRef) and a3.path == eo_name
            chk.ob("O2", Site.of(f, pcall.node), ok2, "(reply, decoded header, resp_type, encrypt_offsets) handed to _process_response" if ok2 else f"_process_response receives ({a1!r}, {a2!r}, {a3!r})")
            continue
        rok = isinstance(resp, SBuf) and resp.size == frag
        chk.ob("O1", Site.of(f, pcall.node), rok, "reply buffer has frag_len bytes of the decoded header" if rok else f"reply buffer is {resp!r}, expected a buffer of the decoded header's frag_len bytes")
        if isinstance(resp, SBuf):
            cov: t.List[t.Tuple[Lin, Lin, str]] = []
            src = f"buf#{resp.bid}"
            for base, idx, val, node in st.stores:
                if isinstance(idx, SView) and idx.src == src:
                    if same_value(val, harg):
                        cov.append((idx.lo, idx.hi, "header copy"))
                    elif isinstance(val, CallVal) and val.rec.name.endswith("readexactly"):
                        want = idx.hi - idx.lo
                        got = val.rec.arg(0)
                        if isinstance(got, Lin) and got == want:
                            cov.append((idx.lo, idx.hi, "readexactly"))
                        else:
                            chk.ob("O1", Site.of(f, node), False, f"readexactly({got!r}) stored into a window of {want!r} bytes")
                    else:
                        chk.ob("O1", Site.of(f, node), False, f"reply bytes [{idx.lo!r}:{idx.hi!r}] come from {val!r}, which is not a complete transport read")
            for c in calls:
                if c.func is not None and c.func.qual in helpers:
                    a = filled_window(c)
                    if isinstance(a, SView) and a.src == src and _before(f, hcall.node, c.node):
                        cov.append((a.lo, a.hi, c.func.name))
            for w, _lp in inline_windows(f, st):
                if w.src == src:
                    cov.append((w.lo, w.hi, "read loop"))
            cov.sort(key=lambda x: (x[0].const if x[0].is_const() else 1 << 30))
            cur = Lin(0)
            okc = True
            for lo, hi, what in cov:
                if not (lo == cur):
                    okc = False
                    break
                cur = hi
            okc = okc and cur == resp.size and len(cov) >= 2 and cov[0][1] == hsz and cov[0][2] == "header copy"
            chk.ob("O1", Site.of(f, pcall.node, f"{f.name}: coverage of the reply buffer"), okc,
                   "reply = header copy [0:16] + complete body read [16:frag_len]" if okc else f"reply buffer [0:{resp.size!r}] is not covered exactly by header copy + complete body read: {[(repr(a), repr(b), w) for a, b, w in cov]}")
        # ---- O2 arguments handed on
        a1, a2, a3 = pcall.arg(1), pcall.arg(2), pcall.arg(3)
        rt_name = f.params[2] if len(f.params) > 2 else "resp_type"
        eo_name = f.params[3] if len(f.params) > 3 else "encrypt_offsets"
        ok2 = a1 is hcall.result and isinstance(a2, TRef) and a2.path == rt_name and isinstance(a3, TRef) and a3.path == eo_name
        chk.ob("O2", Site.of(f, pcall.node), ok2, "(reply, decoded header, resp_type, encrypt_offsets) handed to _process_response" if ok2 else f"_process_response receives ({a1!r}, {a2!r}, {a3!r})")
    if n == 0:
        raise AnalysisError(f"{f.qual}: no returning path")


def same_value(a: t.Any, b: t.Any) -> bool:
    if a is b:
        return True
    if isinstance(a, SBuf) and isinstance(b, SBuf):
        return a.bid == b.bid
    return False


def received_exactly(harg: t.Any, hsz: Lin, calls: t.List[t.Any], before: t.Any, helpers: t.Dict[str, str]) -> t.Tuple[bool, str]:
    if isinstance(harg, CallVal) and harg.rec.name.endswith("readexactly"):
        n = harg.rec.arg(0)
        if isinstance(n, Lin) and n == hsz:
            return True, f"header = readexactly({hsz!r})"
        return False, f"header is readexactly({n!r}) but PDUHeader is {hsz!r} bytes"
    if isinstance(harg, SBuf):
        if not (harg.size == hsz):
            return False, f"header buffer has {harg.size!r} bytes but PDUHeader is {hsz!r} bytes"
        for c in calls:
            if c is before:
                break
            if c.func is not None and c.func.qual in helpers:
                a = filled_window(c)
                if isinstance(a, SView) and a.src == f"buf#{harg.bid}" and a.lo == 0 and a.hi == harg.size:
                    return True, f"header buffer of {hsz!r} bytes filled by {c.func.name} before decoding"
        return False, "header buffer is decoded without being completely filled first"
    return False, f"PDUHeader.unpack is given {harg!r}: not a completely received {hsz!r} byte buffer (a single recv() may return fewer bytes)"
