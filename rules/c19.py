"""C19 - every encryption uses fresh CEK, nonce and key-identifier randomness."""

from __future__ import annotations

import ast
import typing as t

from sa.cfg import build
from sa.flow import ReachingDefs
from sa.intervals import World
from sa.load import AnalysisError, Func, Repo, body_nodes, unparse
from sa.report import Check, Site

# OS entropy primitives: dotted name -> (argument meaning, unit)
ENTROPY = {
    "os.urandom": "bytes",
    "secrets.token_bytes": "bytes",
    "cryptography.hazmat.primitives.ciphers.aead.AESGCM.generate_key": "bits",
}
CACHE_DECORATORS = ("cache", "lru_cache", "cached_property", "memoize", "singledispatch")


class Fresh:
    def __init__(self, ok: bool, why: str, calls: t.Optional[t.List[t.Tuple[Func, ast.Call]]] = None) -> None:
        self.ok = ok
        self.why = why
        self.calls = calls or []


class Tracer:
    def __init__(self, repo: Repo) -> None:
        self.repo = repo
        self.world = World(repo)
        self.rds: t.Dict[str, ReachingDefs] = {}

    def rd(self, f: Func) -> ReachingDefs:
        if f.qual not in self.rds:
            self.rds[f.qual] = ReachingDefs(f, build(f.node))
        return self.rds[f.qual]

    def entropy_name(self, f: Func, call: ast.Call) -> t.Optional[str]:
        d = self.repo.dotted(call.func, f.mod)
        return d if d in ENTROPY else None

    def fresh(self, f: Func, expr: ast.expr, at: t.Optional[ast.AST] = None, index: t.Optional[int] = None, depth: int = 0) -> Fresh:
        """Does `expr` (used at `at`) originate, on every path, from an entropy primitive evaluated during this call?"""
        if depth > 5:
            return Fresh(False, "provenance chain too deep")
        rd = self.rd(f)
        origins = rd.origin(expr, at if at is not None else expr)
        calls: t.List[t.Tuple[Func, ast.Call]] = []
        for val, idx in origins:
            eff = idx if idx is not None else index
            if isinstance(val, ast.Name):
                why = "a parameter" if val.id in f.params else "a name that is not assigned in this call (module level / closure state)"
                return Fresh(False, f"{unparse(expr)} comes from {val.id}: {why}, not from OS entropy drawn during this call")
            if isinstance(val, ast.Tuple) and eff is not None and eff < len(val.elts):
                sub = self.fresh(f, val.elts[eff], val, None, depth + 1)
                if not sub.ok:
                    return sub
                calls += sub.calls
                continue
            if not isinstance(val, ast.Call):
                return Fresh(False, f"{unparse(expr)} is computed as '{unparse(val)}', not drawn from OS entropy")
            name = self.entropy_name(f, val)
            if name is not None:
                if eff is not None:
                    return Fresh(False, f"element {eff} of {unparse(val)}")
                calls.append((f, val))
                continue
            tgt = self.world.resolve_call(f, val)
            if isinstance(tgt, Func):
                bad = [d for d in tgt.decorators if any(c in d for c in CACHE_DECORATORS)]
                if bad:
                    return Fresh(False, f"{unparse(expr)} comes from {tgt.qual}, which is decorated with @{bad[0]}: the same randomness is handed out again for equal arguments")
                if any(isinstance(n, (ast.Global, ast.Nonlocal)) for n in body_nodes(tgt.node)):
                    return Fresh(False, f"{unparse(expr)} comes from {tgt.qual}, which keeps state across calls (global/nonlocal): randomness is not drawn per call")
                rets = [n for n in body_nodes(tgt.node) if isinstance(n, ast.Return)]
                if not rets:
                    return Fresh(False, f"{tgt.qual} returns nothing")
                for r in rets:
                    if r.value is None:
                        return Fresh(False, f"{tgt.qual} has a bare return")
                    rv = r.value
                    if eff is not None:
                        if isinstance(rv, ast.Tuple) and eff < len(rv.elts):
                            sub = self.fresh(tgt, rv.elts[eff], r, None, depth + 1)
                        else:
                            sub = self.fresh(tgt, rv, r, eff, depth + 1)
                    else:
                        sub = self.fresh(tgt, rv, r, None, depth + 1)
                    if not sub.ok:
                        return sub
                    calls += sub.calls
                continue
            return Fresh(False, f"{unparse(expr)} comes from {unparse(val)[:80]}, which is not an OS entropy primitive ({', '.join(sorted(ENTROPY))})")
        if not calls:
            return Fresh(False, f"no entropy source found for {unparse(expr)}")
        return Fresh(True, "fresh: " + ", ".join(f"{unparse(c)} in {g.name}" for g, c in calls), calls)

    def size_ok(self, f: Func, call: ast.Call, want_bytes: t.Union[int, str]) -> t.Tuple[bool, str]:
        name = self.entropy_name(f, call)
        unit = ENTROPY[name or "os.urandom"]
        if not call.args:
            return False, "no size argument"
        a = call.args[0]
        if isinstance(want_bytes, int):
            okf, v = self.repo.try_fold(a, f.mod)
            want = want_bytes * 8 if unit == "bits" else want_bytes
            return (okf and v == want), f"{unparse(call)}: {v if okf else unparse(a)} {unit}, required {want}"
        return unparse(a) == want_bytes, f"{unparse(call)}: size {unparse(a)}, required {want_bytes}"


def run(repo: Repo, chk: Check) -> None:
    chk.scope_decides = (
        "O1 the AES-GCM key, the nonce written into the GCM parameters (and used for the encryption), the nonce-mode key_info and the "
        "ephemeral private key each originate, on every path, from os.urandom / AESGCM.generate_key evaluated inside the protect call "
        "(not a parameter, module constant, cached or stateful helper); O2 their sizes are 256 bit, 12, 32 and ceil(private_key_length/8) "
        "bytes; O3 no use of the 'random' module, no seeding; O4 the ephemeral public key is computed from that fresh private key and the "
        "CEK that is wrapped is the CEK that encrypted."
    )
    chk.scope_not = "statistical distinctness itself (it follows from fresh OS entropy of these sizes); the OS RNG."
    chk.trusted = ["os.urandom / AESGCM.generate_key return fresh OS entropy"]
    tr = Tracer(repo)
    encrypt_blob(repo, chk, tr)
    new_kek(repo, chk, tr)
    who_may_call(repo, chk)
    chk.require_min("entropy sinks", 5)


def _calls(f: Func, name: str) -> t.List[ast.Call]:
    return sorted([n for n in body_nodes(f.node) if isinstance(n, ast.Call) and unparse(n.func) == name], key=lambda n: n.lineno)


def encrypt_blob(repo: Repo, chk: Check, tr: Tracer) -> None:
    f = repo.func("_client._encrypt_blob")
    chk.analysed(f, repo.func("_crypto.cek_generate"), repo.func("_crypto.content_encrypt"))
    ce = _calls(f, "content_encrypt")
    ke = _calls(f, "cek_encrypt")
    if len(ce) != 1 or len(ke) != 1:
        raise AnalysisError("_encrypt_blob: content_encrypt / cek_encrypt call sites changed")
    # ---- CEK
    cek = ce[0].args[2]
    fr = tr.fresh(f, cek, ce[0])
    chk.count("entropy sinks")
    chk.ob("O1", Site.of(f, ce[0], f"content key {unparse(cek)}"), fr.ok, fr.why)
    for g, c in fr.calls:
        ok, why = tr.size_ok(g, c, 32)
        chk.ob("O2", Site.of(g, c), ok, why)
    # the CEK that is wrapped is the CEK that encrypted
    rd = tr.rd(f)
    same = isinstance(cek, ast.Name) and isinstance(ke[0].args[3], ast.Name) and {id(d) for d in rd.reaching(cek.id, ce[0])} == {id(d) for d in rd.reaching(ke[0].args[3].id, ke[0])} and cek.id == ke[0].args[3].id
    chk.ob("O4", Site.of(f, ke[0]), bool(same), "cek_encrypt wraps the key that encrypted the content" if same else f"cek_encrypt wraps {unparse(ke[0].args[3])}, content was encrypted with {unparse(cek)}")
    # ---- nonce: the octet string written into the GCM parameters
    writes = [n for n in body_nodes(f.node) if isinstance(n, ast.Call) and isinstance(n.func, ast.Attribute) and n.func.attr == "write_octet_string"]
    if len(writes) != 1:
        raise AnalysisError("_encrypt_blob: GCM parameter nonce write changed")
    iv = writes[0].args[0]
    fr = tr.fresh(f, iv, writes[0])
    chk.count("entropy sinks")
    chk.ob("O1", Site.of(f, writes[0], f"GCM nonce {unparse(iv)}"), fr.ok, fr.why)
    for g, c in fr.calls:
        ok, why = tr.size_ok(g, c, 12)
        chk.ob("O2", Site.of(g, c), ok, why)
    # the parameters handed to content_encrypt are the ones carrying that nonce
    params = ce[0].args[1]
    org = rd.origin(params, ce[0])
    okp = len(org) == 1 and isinstance(org[0][0], ast.Call) and unparse(org[0][0].func).endswith(".get_data")
    chk.ob("O4", Site.of(f, ce[0]), okp, "content_encrypt receives the parameters that carry the fresh nonce" if okp else f"content_encrypt parameters come from {[unparse(v) for v, _ in org]}")
    # content_encrypt: key and nonce reach the primitive unchanged
    g = repo.func("_crypto.content_encrypt")
    aes = _calls(g, "AESGCM")
    enc = [n for n in body_nodes(g.node) if isinstance(n, ast.Call) and isinstance(n.func, ast.Attribute) and n.func.attr == "encrypt"]
    okk = len(aes) == 1 and unparse(aes[0].args[0]) == g.params[2]
    chk.ob("O4", Site.of(g, aes[0] if aes else None, None if aes else "AESGCM key"), okk, "AESGCM keyed with the cek parameter" if okk else "AESGCM is not keyed with the cek parameter")
    if len(enc) == 1:
        rdg = tr.rd(g)
        o = rdg.origin(enc[0].args[0], enc[0])
        okn = len(o) == 1 and isinstance(o[0][0], ast.Call) and unparse(o[0][0].func).endswith(".read_octet_string")
        chk.ob("O4", Site.of(g, enc[0]), okn, "nonce = first OCTET STRING of the parameters" if okn else f"encrypt nonce comes from {[unparse(v) for v, _ in o]}")
        chk.ob("O4", Site.of(g, enc[0]), unparse(enc[0].args[1]) == g.params[3], "plaintext parameter is what gets encrypted")
    else:
        chk.ob("O4", Site.of(g, construct="cipher.encrypt"), False, "content_encrypt no longer has a single cipher.encrypt call")


def new_kek(repo: Repo, chk: Check, tr: Tracer) -> None:
    f = repo.method("_gkdi.GroupKeyEnvelope", "new_kek")
    chk.analysed(f)
    g = build(f.node)
    rd = tr.rd(f)
    ki = [n for n in body_nodes(f.node) if isinstance(n, ast.Call) and unparse(n.func) == "KeyIdentifier"]
    if len(ki) != 1:
        raise AnalysisError("new_kek: KeyIdentifier construction changed")
    kinfo = next((k.value for k in ki[0].keywords if k.arg == "key_info"), None)
    if kinfo is None:
        raise AnalysisError("new_kek: key_info keyword vanished")
    # ---- nonce mode: kdf(..., key_info, 32) with key_info fresh 32 bytes
    kdfs = _calls(f, "kdf")
    cks = _calls(f, "compute_kek")
    cps = _calls(f, "compute_public_key")
    if len(kdfs) != 1 or len(cks) != 1:
        raise AnalysisError("new_kek: kdf / compute_kek call sites changed")
    ctx = kdfs[0].args[3]
    fr = tr.fresh(f, ctx, kdfs[0])
    chk.count("entropy sinks")
    chk.ob("O1", Site.of(f, kdfs[0], f"nonce-mode key_info {unparse(ctx)}"), fr.ok, fr.why)
    for gg, c in fr.calls:
        ok, why = tr.size_ok(gg, c, 32)
        chk.ob("O2", Site.of(gg, c), ok, why)
    # the identifier stores the very value used (per branch): definitions reaching KeyIdentifier(key_info=..)
    defs = rd.reaching(unparse(kinfo), ki[0]) if isinstance(kinfo, ast.Name) else []
    kd = rd.reaching(unparse(ctx), kdfs[0]) if isinstance(ctx, ast.Name) else []
    oks = isinstance(kinfo, ast.Name) and isinstance(ctx, ast.Name) and kinfo.id == ctx.id and {id(d) for d in kd} <= {id(d) for d in defs}
    chk.ob("O4", Site.of(f, ki[0]), bool(oks), "the identifier stores the nonce that keyed the KEK" if oks else "KeyIdentifier.key_info is not the value used as KDF context")
    # ---- public-key mode
    pk = next((k.value for k in cks[0].keywords if k.arg == "private_key"), None)
    if pk is None:
        raise AnalysisError("new_kek: private_key keyword vanished")
    fr = tr.fresh(f, pk, cks[0])
    chk.count("entropy sinks")
    chk.ob("O1", Site.of(f, cks[0], f"ephemeral private key {unparse(pk)}"), fr.ok, fr.why)
    for gg, c in fr.calls:
        ok, why = tr.size_ok(gg, c, "math.ceil(self.private_key_length / 8)")
        chk.ob("O2", Site.of(gg, c), ok, why)
    if len(cps) != 1:
        if fr.ok:
            raise AnalysisError("new_kek: compute_public_key call site changed")
        chk.count("entropy sinks")
        return
    pk2 = next((k.value for k in cps[0].keywords if k.arg == "private_key"), None)
    if pk2 is None:
        raise AnalysisError("new_kek: private_key keyword of compute_public_key vanished")
    same = isinstance(pk, ast.Name) and isinstance(pk2, ast.Name) and pk.id == pk2.id and {id(d) for d in rd.reaching(pk.id, cks[0])} == {id(d) for d in rd.reaching(pk2.id, cps[0])}
    chk.count("entropy sinks")
    chk.ob("O4", Site.of(f, cps[0]), bool(same), "the public key placed in the blob belongs to the private key that derived the KEK" if same else f"compute_public_key uses {unparse(pk2)}, compute_kek uses {unparse(pk)}")
    # key_info in the public-key branch is the compute_public_key result
    okp = any(d.value is cps[0] for d in defs)
    chk.ob("O4", Site.of(f, ki[0]), okp, "public-key mode stores the ephemeral public key" if okp else "KeyIdentifier.key_info is not the compute_public_key(...) result in public-key mode")
    # peer key: both use self.l2_key
    for c, kw in ((cks[0], "public_key"), (cps[0], "peer_public_key")):
        v = next((k.value for k in c.keywords if k.arg == kw), None)
        okv = v is not None and unparse(v) == "self.l2_key"
        chk.ob("O4", Site.of(f, c), okv, f"{kw} = the group public key" if okv else f"{kw} is {unparse(v) if v is not None else 'missing'}")
    del g


def who_may_call(repo: Repo, chk: Check) -> None:
    bad = []
    for mod in repo.modules.values():
        for local, imp in mod.imports.items():
            if imp[0] == "ext" and (imp[1] == "random" or imp[1].startswith("random.") or imp[1].startswith("numpy.random")):
                bad.append((mod, local))
    anchor = repo.func("_crypto.cek_generate")
    chk.ob("O3", Site(anchor.file, "package imports", 0, "no use of the 'random' module"), not bad, "no pseudo random generator is imported" if not bad else f"{bad[0][0].rel} imports {bad[0][1]}: key material must come from OS entropy")
    for f in repo.funcs.values():
        for n in body_nodes(f.node):
            if isinstance(n, ast.Call):
                d = repo.dotted(n.func, f.mod)
                if d.endswith(".seed") or d in ("secrets.randbits", "secrets.randbelow", "secrets.choice", "uuid.uuid1", "uuid.uuid4"):
                    if f.mod.name in ("_crypto", "_gkdi", "_client"):
                        chk.ob("O3", Site.of(f, n), False, f"{d} is not an accepted entropy primitive for key material (its argument is a bit count / it is not OS byte entropy)")
    for q in ("_crypto.cek_generate", "_gkdi.GroupKeyEnvelope.new_kek", "_client._encrypt_blob", "_crypto.content_encrypt", "_client.ncrypt_protect_secret", "_client.async_ncrypt_protect_secret"):
        f = repo.func(q)
        cached = [d for d in f.decorators if any(c in d for c in CACHE_DECORATORS)]
        chk.ob("O3", Site.of(f, construct=f"decorators of {f.name}"), not cached, "not cached" if not cached else f"{q} is decorated with @{cached[0]}")
