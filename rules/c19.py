"""C19 - every encryption uses fresh CEK, nonce and key-identifier randomness."""

from __future__ import annotations

import ast
import typing as t

from sa.cfg import build
from sa.flow import ReachingDefs
from sa.intervals import World
from sa.load import AnalysisError, Func, Repo, body_nodes, unparse
from sa.report import Check, Site

# OS entropy primitives: dotted name -> (argument meaning, unit)
ENTROPY = {
    "os.urandom": "bytes",
    "secrets.token_bytes": "bytes",
    "cryptography.hazmat.primitives.ciphers.aead.AESGCM.generate_key": "bits",
}
CACHE_DECORATORS = ("cache", "lru_cache", "cached_property", "memoize", "singledispatch")


class Fresh:
    def __init__(self, ok: bool, why: str, calls: t.Optional[t.List[t.Tuple[Func, ast.Call]]] = None) -> None:
        self.ok = ok
        self.why = why
        self.calls = calls or []


class Tracer:
    def __init__(self, repo: Repo) -> None:
        self.repo = repo
        self.world = World(repo)
        self.rds: t.Dict[str, ReachingDefs] = {}

    def rd(self, f: Func) -> ReachingDefs:
        if f.qual not in self.rds:
            self.rds[f.qual] = ReachingDefs(f, build(f.node))
        return self.rds[f.qual]

    def entropy_name(self, f: Func, call: ast.Call) -> t.Optional[str]:
        d = self.repo.dotted(call.func, f.mod)
        return d if d in ENTROPY else None

    def fresh(self, f: Func, expr: ast.expr, at: t.Optional[ast.AST] = None, index: t.Optional[int] = None, depth: int = 0) -> Fresh:
        """Does `expr` (used at `at`) originate, on every path, from an entropy primitive evaluated during this call?"""
        if depth > 5:
            return Fresh(False, "provenance chain too deep")
        rd = self.rd(f)
        origins = rd.origin(expr, at if at is not None else expr)
        calls: t.List[t.Tuple[Func, ast.Call]] = []
        for val, idx in origins:
            eff = idx if idx is not None else index
            if isinstance(val, ast.Name):
                why = "a parameter" if val.id in f.params else "a name that is not assigned in this call (module level / closure state)"
                return Fresh(False, f"{unparse(expr)} comes from {val.id}: {why}, not from OS entropy drawn during this call")
            if isinstance(val, ast.Tuple) and eff is not None and eff < len(val.elts):
                sub = self.fresh(f, val.elts[eff], val, None, depth + 1)
                if not sub.ok:
                    return sub
                calls += sub.calls
                continue
            if not isinstance(val, ast.Call):
                return Fresh(False, f"{unparse(expr)} is computed as '{unparse(val)}', not drawn from OS entropy")
            name = self.entropy_name(f, val)
            if name is not None:
                if eff is not None:
                    return Fresh(False, f"element {eff} of {unparse(val)}")
                calls.append((f, val))
                continue
            tgt = self.world.resolve_call(f, val)
            if isinstance(tgt, Func):
                bad = [d for d in tgt.decorators if any(c in d for c in CACHE_DECORATORS)]
                if bad:
                    return Fresh(False, f"{unparse(expr)} comes from {tgt.qual}, which is decorated with @{bad[0]}: the same randomness is handed out again for equal arguments")
                if any(isinstance(n, (ast.Global, ast.Nonlocal)) for n in body_nodes(tgt.node)):
                    return Fresh(False, f"{unparse(expr)} comes from {tgt.qual}, which keeps state across calls (global/nonlocal): randomness is not drawn per call")
                rets = [n for n in body_nodes(tgt.node) if isinstance(n, ast.Return)]
                if not rets:
                    return Fresh(False, f"{tgt.qual} returns nothing")
                for r in rets:
                    if r.value is None:
                        return Fresh(False, f"{tgt.qual} has a bare return")
                    rv = r.value
                    if eff is not None:
                        if isinstance(rv, ast.Tuple) and eff < len(rv.elts):
                            sub = self.fresh(tgt, rv.elts[eff], r, None, depth + 1)
                        else:
                            sub = self.fresh(tgt, rv, r, eff, depth + 1)
                    else:
                        sub = self.fresh(tgt, rv, r, None, depth + 1)
                    if not sub.ok:
                        return sub
                    calls += sub.calls
                continue
            return Fresh(False, f"{unparse(expr)} comes from {unparse(val)[:80]}, which is not an OS entropy primitive ({', '.join(sorted(ENTROPY))})")
        if not calls:
            return Fresh(False, f"no entropy source found for {unparse(expr)}")
        return Fresh(True, "fresh: " + ", ".join(f"{unparse(c)} in {g.name}" for g, c in calls), calls)

    def size_ok(self, f: Func, call: ast.Call, want_bytes: t.Union[int, str]) -> t.Tuple[bool, str]:
        name = self.entropy_name(f, call)
        unit = ENTROPY[name or "os.urandom"]
        if not call.args:
            return False, "no size argument"
        a = call.args[0]
        if isinstance(want_bytes, int):
            okf, v = self.repo.try_fold(a, f.mod)
            want = want_bytes * 8 if unit == "bits" else want_bytes
            return (okf and v == want), f"{unparse(call)}: {v if okf else unparse(a)} {unit}, required {want}"
        return unparse(a) == want_bytes, f"{unparse(call)}: size {unparse(a)}, required {want_bytes}"


def run(repo: Repo, chk: Check) -> None:
    chk.scope_decides = (
        "decided on path summaries (every control-flow path composed symbolically, call results identified by call site): O1 the AES-GCM key, "
        "the nonce written into the GCM parameters (and used for the encryption), the nonce-mode key_info and the ephemeral private key are, "
        "on every path, the result of os.urandom / AESGCM.generate_key evaluated inside the protect call (not a parameter, module constant, "
        "cached or stateful helper, mutable default), and the KEK and the key identifier of a blob are results [0] and [1] of one key.new_kek() "
        "call made for that encryption; O2 their sizes are 256 bit, 12, 32 and ceil(private_key_length/8) bytes; O3 no use of "
        "the 'random' module, no seeding, no caching decorator or mutable default argument in the protect region; O4 the ephemeral public key "
        "is computed from that fresh private key, which reaches the group operation unreduced, the GCM parameters are written by a writer "
        "created in this call, and the CEK that is wrapped is the CEK that encrypted."
    )
    chk.scope_not = "statistical distinctness itself (it follows from fresh OS entropy of these sizes); the OS RNG."
    chk.trusted = ["os.urandom / AESGCM.generate_key return fresh OS entropy"]
    encrypt_blob(repo, chk)
    new_kek(repo, chk)
    who_may_call(repo, chk)
    chk.require_min("entropy sinks", 4)


def entropy_call(repo: Repo, f: Func, tree: t.Optional[ast.AST]) -> t.Optional[str]:
    if isinstance(tree, ast.Call):
        d = repo.dotted(tree.func, f.mod)
        if d in ENTROPY:
            return d
    return None


def fresh_value(repo: Repo, chk: Check, f: Func, ps: t.Any, tree: t.Optional[ast.AST], what: str, want: t.Union[int, str], site: Site, depth: int = 0) -> bool:
    """`tree` (a value on path ps of f, over f's inputs and call results) is OS entropy drawn on this path, of the wanted size.
    A call of a package function is followed into that function's own path summaries (element [i] of a returned tuple)."""
    from sa.pathsum import Summary

    idx: t.Optional[int] = None
    base = tree
    if isinstance(base, ast.Subscript) and isinstance(base.slice, ast.Constant) and isinstance(base.slice.value, int):
        idx, base = base.slice.value, base.value
    name = entropy_call(repo, f, base) if idx is None else None
    if name is not None:
        call = t.cast(ast.Call, base)
        chk.ob("O1", site, True, f"{what} = {ps.text(call)}: OS entropy drawn during this call")
        unit = ENTROPY[name]
        from .recipe import canon_text
        from .util import args_of

        amap = args_of(repo, f, call, {"os.urandom": ["size"], "secrets.token_bytes": ["nbytes"]}.get(name, ["bit_length"]))
        a = next(iter(amap.values()), None)
        if isinstance(want, int):
            okf, v = repo.try_fold(a, f.mod) if a is not None else (False, None)
            w = want * 8 if unit == "bits" else want
            chk.ob("O2", site, bool(okf and v == w), f"{ps.text(call)}: {v if okf else ps.text(a)} {unit}, required {w}")
        else:
            chk.ob("O2", site, a is not None and canon_text(ps.text(a)) == canon_text(want), f"{ps.text(call)}: size {ps.text(a)}, required {want}")
        return True
    if isinstance(base, ast.Call) and depth < 3:
        from .util import signature

        sig = signature(repo, f, base)
        g = repo.funcs.get(sig[0]) if sig is not None else None
        if g is not None:
            bad = [d for d in g.decorators if any(c in d for c in CACHE_DECORATORS)]
            if bad:
                chk.ob("O1", site, False, f"{what} comes from {g.qual}, which is decorated with @{bad[0]}: the same randomness is handed out again for equal arguments")
                return False
            if any(isinstance(n, (ast.Global, ast.Nonlocal)) for n in body_nodes(g.node)):
                chk.ob("O1", site, False, f"{what} comes from {g.qual}, which keeps state across calls (global/nonlocal): randomness is not drawn per call")
                return False
            sg = Summary(g)
            ok = bool(sg.returning())
            for p2 in sg.returning():
                v = p2.value
                if idx is not None:
                    v = v.elts[idx] if isinstance(v, ast.Tuple) and idx < len(v.elts) else ast.Subscript(value=v, slice=ast.Constant(value=idx), ctx=ast.Load())
                ok = fresh_value(repo, chk, g, p2, v, what, want, Site.of(g, p2.exit_node, f"{what} returned by {g.name}"), depth + 1) and ok
            return ok
    no_call = tree is not None and not any(isinstance(n, ast.Call) for n in ast.walk(tree))
    why = "a parameter / constant / stored state" if no_call else "a computed value"
    chk.ob("O1", site, False, f"{what} is {ps.text(tree)[:80]}: {why}, not OS entropy ({', '.join(sorted(ENTROPY))}) drawn during this call")
    return False


def encrypt_blob(repo: Repo, chk: Check) -> None:
    from sa.pathsum import Summary

    from .util import ev_args, recv_of

    f = repo.func("_client._encrypt_blob")
    chk.analysed(f, repo.func("_crypto.cek_generate"), repo.func("_crypto.content_encrypt"))
    summ = Summary(f, ["blob", "key", "protection_descriptor"])
    if not summ.returning():
        raise AnalysisError("_encrypt_blob: no returning path")
    for ps in summ.returning():
        ce, ke = ps.calls("content_encrypt"), ps.calls("cek_encrypt")
        if len(ce) != 1 or len(ke) != 1:
            raise AnalysisError("_encrypt_blob: content_encrypt / cek_encrypt call sites changed")
        cea, kea = ev_args(repo, f, ce[0]), ev_args(repo, f, ke[0])
        # ---- CEK
        chk.count("entropy sinks")
        fresh_value(repo, chk, f, ps, cea.get("cek"), "content key", 32, Site.of(f, ce[0].node, "content key"))
        same = cea.get("cek") is not None and ps.key(cea.get("cek")) == ps.key(kea.get("value"))
        chk.ob("O4", Site.of(f, ke[0].node), bool(same), "cek_encrypt wraps the key that encrypted the content" if same else f"cek_encrypt wraps {ps.text(kea.get('value'))}, content was encrypted with {ps.text(cea.get('cek'))}")
        # ---- KEK and key identifier: the two results of one key.new_kek() call made on this path (never a kept pair)
        nk = [c for c in ps.calls("new_kek") if ps.text(recv_of(t.cast(ast.Call, c.tree))) == "key"]
        blob = ps.calls("DPAPINGBlob")
        kid = ev_args(repo, f, blob[0]).get("key_identifier") if len(blob) == 1 else None
        want_kek = ps.key(nk[0].tree) + "[0]" if len(nk) == 1 else None
        want_kid = ps.key(nk[0].tree) + "[1]" if len(nk) == 1 else None
        okk = want_kek is not None and kea.get("kek") is not None and ps.key(kea.get("kek")) == want_kek
        chk.ob("O1", Site.of(f, ke[0].node, "key encryption key"), bool(okk), "cek_encrypt is keyed with the KEK of a key.new_kek() call made for this encryption" if okk else f"the KEK given to cek_encrypt is {ps.text(kea.get('kek'))[:80]} with {len(nk)} key.new_kek() call(s) on the path: a KEK (and its key identifier nonce / ephemeral key) kept from an earlier call is reused")
        oki = want_kid is not None and kid is not None and ps.key(kid) == want_kid
        chk.ob("O1", Site.of(f, blob[0].node if blob else None, None if blob else "key identifier"), bool(oki), "the blob carries the key identifier of that same new_kek() call" if oki else f"the key identifier written into the blob is {ps.text(kid)[:80] if kid is not None else 'missing'}: not the second result of this call's key.new_kek()")
        # ---- nonce: the octet string written into the GCM parameters, by a writer created on this path
        params = cea.get("parameters")
        okp = isinstance(params, ast.Call) and isinstance(params.func, ast.Attribute) and params.func.attr == "get_data" and ps.text(params.func.value) == "ASN1Writer()"
        chk.ob("O4", Site.of(f, ce[0].node, "GCM parameters"), bool(okp), "content_encrypt receives parameters written by an ASN1Writer created in this call" if okp else f"content_encrypt parameters are {ps.text(params)[:80]}: not the bytes of a writer created in this call (a shared or default-argument writer accumulates earlier nonces, the first one keeps being used)")
        if not okp:
            chk.count("entropy sinks")
            continue
        root = ps.key(t.cast(ast.Call, params).func.value)  # type: ignore[union-attr]
        seqs = [c for c in ps.calls("push_sequence") if ps.key(recv_of(t.cast(ast.Call, c.tree))) == root]
        writes = [c for c in ps.calls("write_octet_string") if seqs and ps.key(recv_of(t.cast(ast.Call, c.tree))) == ps.key(seqs[0].tree)]
        chk.count("entropy sinks")
        if len(seqs) != 1 or len(writes) != 1:
            chk.ob("O1", Site.of(f, ce[0].node, "GCM nonce"), False, "the GCM parameters are not one SEQUENCE with one OCTET STRING nonce written on this path")
            continue
        iv = t.cast(ast.Call, writes[0].tree).args[0]
        fresh_value(repo, chk, f, ps, iv, "GCM nonce", 12, Site.of(f, writes[0].node, "GCM nonce"))
    # content_encrypt: key and nonce reach the primitive unchanged
    g = repo.func("_crypto.content_encrypt")
    sg = Summary(g, ["algorithm", "parameters", "cek", "value"])
    for ps in sg.returning():
        enc = ps.calls("encrypt")
        if len(enc) != 1:
            chk.ob("O4", Site.of(g, construct="cipher.encrypt"), False, "content_encrypt no longer has a single cipher.encrypt call")
            continue
        c = t.cast(ast.Call, enc[0].tree)
        a = ev_args(repo, g, enc[0])
        okk = ps.text(recv_of(c)) == "AESGCM(cek)"
        chk.ob("O4", Site.of(g, enc[0].node, "AESGCM key"), okk, "AESGCM keyed with the cek parameter" if okk else f"the cipher is {ps.text(recv_of(c))}")
        okn = ps.text(a.get("nonce")) == "ASN1Reader(parameters).read_sequence().read_octet_string()"
        chk.ob("O4", Site.of(g, enc[0].node, "nonce"), okn, "nonce = first OCTET STRING of the parameters" if okn else f"encrypt nonce is {ps.text(a.get('nonce'))}")
        chk.ob("O4", Site.of(g, enc[0].node, "plaintext"), ps.text(a.get("data")) == "value", "plaintext parameter is what gets encrypted")


def new_kek(repo: Repo, chk: Check) -> None:
    """The recipe of both new_kek modes (shared with C03) names the entropy calls; here they must be OS entropy of the right size,
    and the private key must reach the group operation unreduced (compute_kek / compute_public_key recipes)."""
    from sa.pathsum import Summary

    from .c03 import compute_kek_recipe, compute_public_key, kek_sides
    from .util import ev_args

    f = repo.method("_gkdi.GroupKeyEnvelope", "new_kek")
    chk.analysed(f)
    kek_sides(repo, chk, f, repo.method("_gkdi.GroupKeyEnvelope", "get_kek"))
    summ = Summary(f, ["self"])
    for ps in summ.returning():
        facts = ps.facts()
        ki = [c for c in ps.calls("KeyIdentifier") if ps.text(t.cast(ast.Call, c.tree).func) == "KeyIdentifier"]
        if len(ki) != 1:
            chk.ob("O1", Site.of(f, ps.exit_node, "KeyIdentifier"), False, "a returning path of new_kek does not build one KeyIdentifier")
            continue
        kinfo = ev_args(repo, f, ki[0]).get("key_info")
        chk.count("entropy sinks")
        if "self.is_public_key" in facts:
            cps = ps.calls("compute_public_key")
            if len(cps) != 1 or ps.key(kinfo) != ps.key(cps[0].tree):
                chk.ob("O4", Site.of(f, ki[0].node), False, f"public-key mode: key_info is {ps.text(kinfo)[:80]}, not the compute_public_key(...) result of this call")
                continue
            pk = ev_args(repo, f, cps[0]).get("private_key")
            fresh_value(repo, chk, f, ps, pk, "ephemeral private key", "math.ceil(self.private_key_length / 8)", Site.of(f, cps[0].node, "ephemeral private key"))
            cks = ps.calls("compute_kek")
            same = len(cks) == 1 and ps.key(ev_args(repo, f, cks[0]).get("private_key")) == ps.key(pk)
            chk.ob("O4", Site.of(f, cps[0].node), bool(same), "the public key placed in the blob belongs to the private key that derived the KEK" if same else "compute_public_key and compute_kek use different private keys")
        else:
            fresh_value(repo, chk, f, ps, kinfo, "nonce-mode key_info", 32, Site.of(f, ki[0].node, "nonce-mode key_info"))
    compute_kek_recipe(repo, chk, repo.func("_gkdi.compute_kek"))
    compute_public_key(repo, chk, repo.func("_gkdi.compute_public_key"))


def who_may_call(repo: Repo, chk: Check) -> None:
    bad = []
    for mod in repo.modules.values():
        for local, imp in mod.imports.items():
            if imp[0] == "ext" and (imp[1] == "random" or imp[1].startswith("random.") or imp[1].startswith("numpy.random")):
                bad.append((mod, local))
    anchor = repo.func("_crypto.cek_generate")
    chk.ob("O3", Site(anchor.file, "package imports", 0, "no use of the 'random' module"), not bad, "no pseudo random generator is imported" if not bad else f"{bad[0][0].rel} imports {bad[0][1]}: key material must come from OS entropy")
    for f in repo.funcs.values():
        for n in body_nodes(f.node):
            if isinstance(n, ast.Call):
                d = repo.dotted(n.func, f.mod)
                if d.endswith(".seed") or d in ("secrets.randbits", "secrets.randbelow", "secrets.choice", "uuid.uuid1", "uuid.uuid4"):
                    if f.mod.name in ("_crypto", "_gkdi", "_client"):
                        chk.ob("O3", Site.of(f, n), False, f"{d} is not an accepted entropy primitive for key material (its argument is a bit count / it is not OS byte entropy)")
    for f in repo.funcs.values():
        if f.mod.name in ("_crypto", "_gkdi", "_client", "_blob", "_pkcs7", "_asn1"):
            a = f.node.args
            for d in list(a.defaults) + [x for x in a.kw_defaults if x is not None]:
                if isinstance(d, (ast.Call, ast.List, ast.Dict, ast.Set, ast.ListComp)) and not (isinstance(d, ast.Call) and unparse(d.func) in ("tuple", "frozenset", "bytes", "str", "int")):
                    chk.ob("O3", Site.of(f, d, f"default argument of {f.name}"), False, f"{unparse(d)[:60]} as a default argument is created once at import and shared by every call: state (written nonces, keys) carries over from one protect call to the next")
    for q in ("_crypto.cek_generate", "_gkdi.GroupKeyEnvelope.new_kek", "_client._encrypt_blob", "_crypto.content_encrypt", "_client.ncrypt_protect_secret", "_client.async_ncrypt_protect_secret"):
        f = repo.func(q)
        cached = [d for d in f.decorators if any(c in d for c in CACHE_DECORATORS)]
        chk.ob("O3", Site.of(f, construct=f"decorators of {f.name}"), not cached, "not cached" if not cached else f"{q} is decorated with @{cached[0]}")
