"""Reference recipes checked against path summaries.

A recipe is a list of steps; each step names a call that must occur exactly once on the path, binds its result to a
short name and states, per parameter, the expected argument *as a value over the function's inputs and the results of
earlier steps* (so `C` means "the very result of the call bound to C", whatever locals it passed through).  Local
names, temporaries, helper extraction (after normalisation), keyword/positional style and guard style are immaterial.
"""

from __future__ import annotations

import ast
import typing as t

from sa.load import Func, Repo
from sa.pathsum import Ev, PathSum
from sa.report import Check, Site

from .util import ev_args, recv_of


class S:
    def __init__(self, name: str, callee: str, want: t.Optional[t.Dict[str, str]] = None, params: t.Optional[t.List[str]] = None, recv: t.Optional[str] = None, nth: t.Optional[int] = None, why: str = "") -> None:
        self.name = name
        self.callee = callee
        self.want = want or {}
        self.params = params
        self.recv = recv
        self.nth = nth
        self.why = why


def run_recipe(repo: Repo, chk: Check, rule: str, f: Func, ps: PathSum, steps: t.List[S], what: str, ret: t.Optional[str] = None, abbr: t.Optional[t.Dict[str, ast.AST]] = None) -> t.Dict[str, ast.AST]:
    """Check the steps on one path; returns the bindings.  Every deviation is an obligation failure at the call."""
    names: t.Dict[str, ast.AST] = dict(abbr or {})
    ok_all = True
    for st in steps:
        evs: t.List[Ev] = ps.calls(st.callee)
        if st.recv is not None:
            evs = [e for e in evs if ps.short(recv_of(t.cast(ast.Call, e.tree)), names) == st.recv]
        if st.nth is not None:
            evs = evs[st.nth : st.nth + 1]
        if len(evs) != 1:
            chk.ob(rule, Site.of(f, ps.exit_node, f"{what}: {st.callee}"), False, f"{what}: the path {sorted(ps.facts())[:4]} calls {st.callee}{' on ' + st.recv if st.recv else ''} {len(evs)} times, the construction has exactly one such call{' (' + st.why + ')' if st.why else ''}")
            ok_all = False
            continue
        ev = evs[0]
        got = {k: ps.short(v, names) for k, v in ev_args(repo, f, ev, st.params).items()}
        bad = {k: (got.get(k), w) for k, w in st.want.items() if got.get(k) != w}
        chk.ob(rule, Site.of(f, ev.node), not bad, f"{what}: {st.callee}({', '.join(f'{k}={w}' for k, w in st.want.items())})" if not bad else f"{what}: " + "; ".join(f"{st.callee} {k} is {g!r}, the construction needs {w!r}" for k, (g, w) in bad.items()) + (f" ({st.why})" if st.why else ""))
        ok_all = ok_all and not bad
        names[st.name] = t.cast(ast.AST, ev.tree)
    if ret is not None:
        got_r = ps.short(ps.value, names)
        chk.ob(rule, Site.of(f, ps.exit_node, None if ps.exit_node is not None else "return"), got_r == ret, f"{what}: returns {ret}" if got_r == ret else f"{what}: returns {got_r[:120]!r}, the construction returns {ret!r}")
    return names
