"""Reference recipes checked against path summaries.

A recipe is a list of steps; each step names a call that must occur exactly once on the path, binds its result to a
short name and states, per parameter, the expected argument *as a value over the function's inputs and the results of
earlier steps* (so `C` means "the very result of the call bound to C", whatever locals it passed through).  Local
names, temporaries, helper extraction (after normalisation), keyword/positional style and guard style are immaterial.
"""

from __future__ import annotations

import ast
import typing as t

from sa.load import Func, Repo
from sa.pathsum import Ev, PathSum
from sa.report import Check, Site

from .util import ev_args, recv_of


def canon_text(txt: str) -> str:
    """Canonical spelling of a value text: constant arithmetic folded, the integer ceiling-division idioms
    `(x + k - 1) // k`, `-(-x // k)` written as `math.ceil(x / k)`."""
    try:
        tree = ast.parse(txt, mode="eval").body
    except SyntaxError:
        return txt

    class C(ast.NodeTransformer):
        def visit_BinOp(self, node: ast.BinOp) -> ast.AST:
            self.generic_visit(node)
            l, r = node.left, node.right
            if isinstance(l, ast.Constant) and isinstance(r, ast.Constant) and isinstance(l.value, int) and isinstance(r.value, int) and not isinstance(l.value, bool) and not isinstance(r.value, bool):
                try:
                    v = {ast.Add: l.value + r.value, ast.Sub: l.value - r.value, ast.Mult: l.value * r.value, ast.FloorDiv: l.value // r.value if r.value else None, ast.Mod: l.value % r.value if r.value else None, ast.LShift: l.value << r.value if 0 <= r.value < 256 else None}.get(type(node.op))
                except Exception:
                    v = None
                if v is not None:
                    return ast.Constant(value=v)
            if isinstance(node.op, ast.FloorDiv) and isinstance(r, ast.Constant) and isinstance(r.value, int) and r.value > 0:
                k = r.value
                if isinstance(l, ast.BinOp) and isinstance(l.op, ast.Add):
                    for x, c in ((l.left, l.right), (l.right, l.left)):
                        if isinstance(c, ast.Constant) and c.value == k - 1:
                            return ast.Call(func=ast.Attribute(value=ast.Name(id="math", ctx=ast.Load()), attr="ceil", ctx=ast.Load()), args=[ast.BinOp(left=x, op=ast.Div(), right=ast.Constant(value=k))], keywords=[])
            return node

        def visit_Call(self, node: ast.Call) -> ast.AST:
            self.generic_visit(node)
            fn = node.func
            # "text".encode("utf-16-le") is the byte string it denotes
            if isinstance(fn, ast.Attribute) and fn.attr == "encode" and isinstance(fn.value, ast.Constant) and isinstance(fn.value.value, str) and len(node.args) <= 1 and not node.keywords and all(isinstance(a, ast.Constant) and isinstance(a.value, str) for a in node.args):
                try:
                    return ast.Constant(value=fn.value.value.encode(*[a.value for a in node.args]))  # type: ignore[attr-defined]
                except Exception:
                    return node
            # b"".join((a, b)) and b"".join([a, b]) are the same concatenation
            if isinstance(fn, ast.Attribute) and fn.attr == "join" and len(node.args) == 1 and isinstance(node.args[0], ast.Tuple):
                node.args = [ast.List(elts=node.args[0].elts, ctx=ast.Load())]
            return node

        def visit_UnaryOp(self, node: ast.UnaryOp) -> ast.AST:
            self.generic_visit(node)
            o = node.operand
            if isinstance(node.op, ast.USub) and isinstance(o, ast.BinOp) and isinstance(o.op, ast.FloorDiv) and isinstance(o.left, ast.UnaryOp) and isinstance(o.left.op, ast.USub) and isinstance(o.right, ast.Constant):
                return ast.Call(func=ast.Attribute(value=ast.Name(id="math", ctx=ast.Load()), attr="ceil", ctx=ast.Load()), args=[ast.BinOp(left=o.left.operand, op=ast.Div(), right=o.right)], keywords=[])
            return node

    try:
        return ast.unparse(ast.fix_missing_locations(C().visit(tree)))
    except Exception:
        return txt


class S:
    def __init__(self, name: str, callee: str, want: t.Optional[t.Dict[str, str]] = None, params: t.Optional[t.List[str]] = None, recv: t.Optional[str] = None, nth: t.Optional[int] = None, why: str = "") -> None:
        self.name = name
        self.callee = callee
        self.want = want or {}
        self.params = params
        self.recv = recv
        self.nth = nth
        self.why = why


def run_recipe(repo: Repo, chk: Check, rule: str, f: Func, ps: PathSum, steps: t.List[S], what: str, ret: t.Optional[str] = None, abbr: t.Optional[t.Dict[str, ast.AST]] = None) -> t.Dict[str, ast.AST]:
    """Check the steps on one path; returns the bindings.  Every deviation is an obligation failure at the call."""
    names: t.Dict[str, ast.AST] = dict(abbr or {})
    ok_all = True
    for st in steps:
        evs: t.List[Ev] = ps.calls(st.callee)
        if st.recv is not None:
            evs = [e for e in evs if ps.short(recv_of(t.cast(ast.Call, e.tree)), names) == st.recv]
        if st.nth is not None:
            evs = evs[st.nth : st.nth + 1]
        if len(evs) != 1:
            chk.ob(rule, Site.of(f, ps.exit_node, f"{what}: {st.callee}"), False, f"{what}: the path {sorted(ps.facts())[:4]} calls {st.callee}{' on ' + st.recv if st.recv else ''} {len(evs)} times, the construction has exactly one such call{' (' + st.why + ')' if st.why else ''}")
            ok_all = False
            continue
        ev = evs[0]
        got = {k: canon_text(ps.short(v, names)) for k, v in ev_args(repo, f, ev, st.params).items()}
        bad = {k: (got.get(k), w) for k, w in st.want.items() if got.get(k) != canon_text(w)}
        chk.ob(rule, Site.of(f, ev.node), not bad, f"{what}: {st.callee}({', '.join(f'{k}={w}' for k, w in st.want.items())})" if not bad else f"{what}: " + "; ".join(f"{st.callee} {k} is {g!r}, the construction needs {w!r}" for k, (g, w) in bad.items()) + (f" ({st.why})" if st.why else ""))
        ok_all = ok_all and not bad
        names[st.name] = t.cast(ast.AST, ev.tree)
    if ret is not None:
        got_r = canon_text(ps.short(ps.value, names))
        chk.ob(rule, Site.of(f, ps.exit_node, None if ps.exit_node is not None else "return"), got_r == canon_text(ret), f"{what}: returns {ret}" if got_r == ret else f"{what}: returns {got_r[:120]!r}, the construction returns {ret!r}")
    return names
