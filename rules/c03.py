"""C03 - KEK derivation agrees on both sides and with an independent implementation."""

from __future__ import annotations

import ast
import typing as t

from sa.flow import ReachingDefs
from sa.load import AnalysisError, Func, Repo, body_nodes, unparse
from sa.pathsum import Summary
from sa.report import Check, Site


def calls(f: Func, name: str) -> t.List[ast.Call]:
    return sorted([n for n in body_nodes(f.node) if isinstance(n, ast.Call) and unparse(n.func) == name], key=lambda n: n.lineno)


def argmap(repo: Repo, call: ast.Call, callee: t.Optional[Func], rd: t.Optional[ReachingDefs] = None) -> t.Dict[str, str]:
    """parameter name -> argument expression; with `rd` in provenance normal form (locals replaced by what defines them)."""
    from sa.flow import provenance

    def txt(e: ast.expr) -> str:
        return provenance(rd, e, call) if rd is not None else unparse(e)

    out: t.Dict[str, str] = {}
    params = [p for p in (callee.params if callee else []) if p not in ("self", "cls")]
    for i, a in enumerate(call.args):
        out[params[i] if i < len(params) else str(i)] = txt(a)
    for k in call.keywords:
        if k.arg:
            out[k.arg] = txt(k.value)
    return out


def expect(chk: Check, rule: str, f: Func, call: t.Optional[ast.Call], got: t.Dict[str, str], want: t.Dict[str, str], what: str) -> None:
    site = Site.of(f, call, None) if call is not None else Site.of(f, construct=what)
    bad = {k: (got.get(k), v) for k, v in want.items() if got.get(k) != v}
    chk.ob(rule, site, not bad, f"{what}: " + ", ".join(f"{k}={v}" for k, v in want.items()) if not bad else f"{what}: " + "; ".join(f"{k} is {g!r}, the construction needs {w!r}" for k, (g, w) in bad.items()))


H = "KDFParameters.unpack(self.kdf_parameters).hash_algorithm"
UTF16 = lambda txt: repr(txt) + ".encode('utf-16-le')"  # noqa: E731
KEK_CONTEXT = "'KDS public key\\x00'.encode('utf-16-le')"
BIG = "int.from_bytes(private_key, byteorder='big')"


def run(repo: Repo, chk: Check) -> None:
    chk.scope_decides = (
        "that both sides are one computation on dual inputs, decided on path summaries (each control-flow path of the functions composed "
        "symbolically over their inputs): O1 nonce mode - on the non-public-key paths new_kek and get_kek call kdf with pairwise equal arguments "
        "(hash from the envelope's KDF parameters, L2 key, label, the key_info nonce, 32 bytes) and return that result; O2 public-key mode - both sides reach "
        "compute_kek with the same algorithm/secret parameters, the decrypt side derives the private key with ceil(private_key_length/8) bytes, "
        "the same expression the encrypt side draws, and the recipe of compute_kek (DH pow / ECDH exchange with the unreduced private key, "
        "SP800-56A concat KDF with SHA256|curve hash and the fixed UTF-16 otherinfo, final SP800-108 KDF) is as specified, with every value "
        "being the result of the preceding step (no cached or alternative value); O3 every group element / coordinate / shared secret is "
        "packed big-endian at the structure's key_length, never at a width derived from the value."
    )
    chk.scope_not = "equality of the derived bytes with an independent implementation (numerical)."
    chk.trusted = ["cryptography's KBKDFHMAC, ConcatKDFHash, ECDH; Python pow(); the recipe transcribed from MS-GKDI 3.1.4.1.2 / observed BCrypt usage"]
    new_kek = repo.method("_gkdi.GroupKeyEnvelope", "new_kek")
    get_kek = repo.method("_gkdi.GroupKeyEnvelope", "get_kek")
    chk.analysed(new_kek, get_kek)
    kek_sides(repo, chk, new_kek, get_kek)
    ck = repo.func("_gkdi.compute_kek")
    ckp = repo.func("_gkdi.compute_kek_from_public_key")
    cpk = repo.func("_gkdi.compute_public_key")
    chk.analysed(ck, ckp, cpk)
    sp = Summary(ckp, ["algorithm", "seed", "secret_algorithm", "secret_parameters", "public_key", "private_key_length"])
    if not sp.returning():
        raise AnalysisError("compute_kek_from_public_key: no returning path")
    for ps in sp.returning():
        run_recipe(repo, chk, "O2", ckp, ps, [
            S("D", "kdf", {"algorithm": "algorithm", "secret": "seed", "label": "KDS_SERVICE_LABEL", "context": "(secret_algorithm + '\\x00').encode('utf-16-le')", "length": "private_key_length"}, why="private key = KDF(hash, L2 key, label, algorithm name, length)"),
            S("K", "compute_kek", {"algorithm": "algorithm", "secret_algorithm": "secret_algorithm", "secret_parameters": "secret_parameters", "private_key": "D", "public_key": "public_key"}, why="the same compute_kek as the encrypt side, keyed with the derived private key"),
        ], "compute_kek_from_public_key", ret="K")
    compute_kek_recipe(repo, chk, ck)
    compute_public_key(repo, chk, cpk)
    kdf_concat(repo, chk)
    okf, lab = repo.try_fold(ast.Name(id="KDS_SERVICE_LABEL", ctx=ast.Load()), ck.mod)
    chk.ob("O2", Site(ck.file, "_gkdi module", 0, "KDS_SERVICE_LABEL"), okf and lab == "KDS service\0".encode("utf-16-le"), "label = 'KDS service' UTF-16 with terminator")
    cah = repo.method("_gkdi.ECDHKey", "curve_and_hash")
    tab = [n for n in body_nodes(cah.node) if isinstance(n, ast.Dict)]
    want_tab = {"'P256'": "(ec.SECP256R1(), hashes.SHA256())", "'P384'": "(ec.SECP384R1(), hashes.SHA384())", "'P521'": "(ec.SECP521R1(), hashes.SHA512())"}
    got_tab = {unparse(k): unparse(v) for k, v in zip(tab[0].keys, tab[0].values)} if tab else {}
    chk.ob("O2", Site.of(cah, tab[0] if tab else None, None if tab else "curve table"), got_tab == want_tab, "P256/SHA256, P384/SHA384, P521/SHA512" if got_tab == want_tab else f"curve table is {got_tab}")
    # ---------------------------------------------------------------- O3 fixed width (layout tables)
    from . import codecs
    from .c11 import reference
    from sa import layout
    from .c11 import _cond_key
    from .reftab import first_difference, sigs_of

    ref = reference()
    for q in ("_gkdi.FFCDHKey", "_gkdi.ECDHKey", "_gkdi.FFCDHParameters"):
        codecs.plain(repo, chk, "O3", q)
        cls = repo.cls(q)
        for p in layout.writer_paths(repo, cls.methods["pack"]):
            key = _cond_key(p.conds)
            d = first_difference(sigs_of(p.segs), ref[q].get(key, []))
            chk.ob("O3", Site.of(cls.methods["pack"], construct=f"{cls.name}.pack fixed-width big-endian integers"), d is None, "every integer is written big-endian at key_length bytes (leading zeros kept)" if d is None else d)


def kek_sides(repo: Repo, chk: Check, new_kek: Func, get_kek: Func) -> None:
    L2 = S("L2", "compute_l2_key", {"algorithm": H, "request_l1": "key_id.l1", "request_l2": "key_id.l2", "rk": "self"}, why="L2 key of the blob's position")
    sn = Summary(new_kek, ["self"])
    sg = Summary(get_kek, ["self", "key_id"])
    modes: t.Dict[str, t.Set[str]] = {"new_kek": set(), "get_kek": set()}
    for f, summ in ((new_kek, sn), (get_kek, sg)):
        if not summ.returning():
            raise AnalysisError(f"{f.qual}: no returning path")
        for ps in summ.returning():
            okk = ps.eq_consts(repo).get("self.kdf_algorithm") == "SP800_108_CTR_HMAC"
            chk.ob("O1", Site.of(f, ps.exit_node, f"{f.name}: KDF algorithm check"), okk, "only SP800_108_CTR_HMAC is accepted")
            facts = ps.facts()
            switch = "self.is_public_key" if f is new_kek else "key_id.is_public_key"
            pub, non = switch in facts, f"not ({switch})" in facts
            if pub == non:
                chk.ob("O2", Site.of(f, ps.exit_node, "mode switch"), False, f"a returning path of {f.name} does not decide {switch}: the derivation is not selected by the public-key flag")
                continue
            modes[f.name].add("public" if pub else "nonce")
            if f is new_kek and non:
                names = run_recipe(repo, chk, "O1", f, ps, [
                    S("N", "urandom", {"#0": "32"}, params=[], why="fresh 32 byte nonce"),
                    S("K", "kdf", {"algorithm": H, "secret": "self.l2_key", "label": "KDS_SERVICE_LABEL", "context": "N", "length": "32"}, why="encrypt side KEK = KDF(hash of the envelope's KDF parameters, L2 key, label, fresh nonce, 32)"),
                    S("I", "KeyIdentifier", {"key_info": "N"}, why="the nonce that keyed the KDF is the one stored"),
                ], "encrypt side, nonce mode", ret="(K, I)")
            elif f is new_kek:
                run_recipe(repo, chk, "O2", f, ps, [
                    S("X", "urandom", {"#0": "math.ceil(self.private_key_length / 8)"}, params=[], why="ceil(private_key_length / 8) fresh bytes"),
                    S("K", "compute_kek", {"algorithm": H, "secret_algorithm": "self.secret_algorithm", "secret_parameters": "self.secret_parameters", "private_key": "X", "public_key": "self.l2_key"}, why="encrypt side compute_kek with the ephemeral private key against the peer key in l2_key"),
                    S("P", "compute_public_key", {"secret_algorithm": "self.secret_algorithm", "secret_parameters": "self.secret_parameters", "private_key": "X", "peer_public_key": "self.l2_key"}, why="the public key of the same ephemeral private key is what the blob carries"),
                    S("I", "KeyIdentifier", {"key_info": "P"}),
                ], "encrypt side, public-key mode", ret="(K, I)")
            elif non:
                run_recipe(repo, chk, "O1", f, ps, [
                    L2,
                    S("K", "kdf", {"algorithm": H, "secret": "L2", "label": "KDS_SERVICE_LABEL", "context": "key_id.key_info", "length": "32"}, why="decrypt side KEK = KDF(same hash, L2 key of the blob's position, label, stored nonce, 32)"),
                ], "decrypt side, nonce mode", ret="K")
            else:
                run_recipe(repo, chk, "O2", f, ps, [
                    L2,
                    S("K", "compute_kek_from_public_key", {"algorithm": H, "seed": "L2", "secret_algorithm": "self.secret_algorithm", "secret_parameters": "self.secret_parameters", "public_key": "key_id.key_info", "private_key_length": "math.ceil(self.private_key_length / 8)"}, why="decrypt side derives the private key at the same length the encrypt side draws"),
                ], "decrypt side, public-key mode", ret="K")
    for name, got in modes.items():
        chk.ob("O2", Site.of(new_kek if name == "new_kek" else get_kek, construct="mode switch"), got == {"public", "nonce"}, f"{name}: nonce and public-key derivations both reachable" if got == {"public", "nonce"} else f"{name}: only {sorted(got)} reachable")


def _algo_paths(f: Func, summ: Summary) -> t.Dict[str, t.List[t.Any]]:
    out: t.Dict[str, t.List[t.Any]] = {"DH": [], "ECDH": [], "other": []}
    for ps in summ.returning():
        eqc = ps.eq_consts(None) if False else {}
        facts = ps.facts()
        if "'DH' == secret_algorithm" in facts:
            out["DH"].append(ps)
        elif "secret_algorithm.startswith('ECDH_P')" in facts:
            out["ECDH"].append(ps)
        else:
            out["other"].append(ps)
        del eqc
    return out


def compute_kek_recipe(repo: Repo, chk: Check, f: Func) -> None:
    summ = Summary(f, ["algorithm", "secret_algorithm", "secret_parameters", "private_key", "public_key"])
    br = _algo_paths(f, summ)
    chk.ob("O2", Site.of(f, construct="algorithm switch"), bool(br["DH"]) and bool(br["ECDH"]) and not br["other"] and bool(summ.raising()), "DH / ECDH_P* / otherwise NotImplementedError" if not br["other"] else "a KEK is returned for an algorithm that is neither DH nor ECDH_P*")
    tail = [
        S("C", "kdf_concat", {"algorithm_id": "'SHA512\\x00'.encode('utf-16-le')", "party_uinfo": KEK_CONTEXT, "party_vinfo": "KDS_SERVICE_LABEL"}, why="SP800-56A concat KDF"),
        S("R", "kdf", {"algorithm": "algorithm", "secret": "C", "label": "KDS_SERVICE_LABEL", "context": KEK_CONTEXT, "length": "32"}, why="final SP800-108 KDF keyed with the concat KDF output"),
    ]
    for ps in br["DH"]:
        names = run_recipe(repo, chk, "O2", f, ps, [
            S("K", "FFCDHKey.unpack", {"data": "public_key"}, why="peer key decoded from the public_key argument"),
            S("P", "pow", {"base": "K.public_key", "exp": BIG, "mod": "K.field_order"}, params=["base", "exp", "mod"], why="shared secret = y ** x mod p with the whole big-endian private key as exponent (the exponent must not be reduced or re-encoded: the other side and Windows use the full value)"),
        ], "compute_kek DH")
        c = ps.calls("kdf_concat")
        if len(c) == 1:
            a = {k: ps.short(v, names) for k, v in ev_args(repo, f, c[0]).items()}
            okw = a.get("shared_secret") == "P.to_bytes(K.key_length, byteorder='big')"
            chk.ob("O3", Site.of(f, c[0].node, "shared secret packing"), okw, "shared secret packed big-endian at the key's key_length (leading zero bytes kept)" if okw else f"shared secret is packed as '{a.get('shared_secret')}': a width derived from the value drops leading zero bytes and changes the KEK for 1 in 256 secrets")
            oks = a.get("algorithm") == "hashes.SHA256()" and a.get("length") == "hashes.SHA256().digest_size"
            chk.ob("O2", Site.of(f, c[0].node, "DH secret hash"), oks, "DH: SP800-56A with SHA256" if oks else f"DH concat KDF uses {a.get('algorithm')} / {a.get('length')}")
        run_recipe(repo, chk, "O2", f, ps, tail, "compute_kek DH", ret="R", abbr=names)
    for ps in br["ECDH"]:
        names = run_recipe(repo, chk, "O2", f, ps, [
            S("E", "ECDHKey.unpack", {"data": "public_key"}, why="peer key decoded from the public_key argument"),
            S("N", "EllipticCurvePublicNumbers", {"x": "E.x", "y": "E.y", "curve": "E.curve_and_hash[0]"}, params=["x", "y", "curve"], why="peer point (x, y) on the key's curve"),
            S("Q", "public_key", recv="N", why="peer public key object"),
            S("D", "derive_private_key", {"private_value": BIG, "curve": "E.curve_and_hash[0]"}, params=["private_value", "curve"], why="private scalar = whole big-endian private key on the key's curve"),
            S("X", "exchange", {"algorithm": "ec.ECDH()", "peer_public_key": "Q"}, params=["algorithm", "peer_public_key"], recv="D", why="shared secret = ECDH exchange"),
        ], "compute_kek ECDH")
        c = ps.calls("kdf_concat")
        if len(c) == 1:
            a = {k: ps.short(v, names) for k, v in ev_args(repo, f, c[0]).items()}
            ok = a.get("shared_secret") == "X" and a.get("algorithm") == "E.curve_and_hash[1]" and a.get("length") == "E.curve_and_hash[1].digest_size"
            chk.ob("O2", Site.of(f, c[0].node, "curve and hash"), ok, "ECDH: exchange output through SP800-56A with the curve's hash" if ok else f"ECDH concat KDF is fed {a}")
        run_recipe(repo, chk, "O2", f, ps, tail, "compute_kek ECDH", ret="R", abbr=names)


def compute_public_key(repo: Repo, chk: Check, f: Func) -> None:
    summ = Summary(f, ["secret_algorithm", "secret_parameters", "private_key", "peer_public_key"])
    br = _algo_paths(f, summ)
    chk.ob("O2", Site.of(f, construct="algorithm switch"), bool(br["DH"]) and bool(br["ECDH"]) and not br["other"], "DH / ECDH_P* / otherwise NotImplementedError")
    for ps in br["DH"]:
        run_recipe(repo, chk, "O2", f, ps, [
            S("K", "FFCDHKey.unpack", {"data": "peer_public_key"}),
            S("P", "pow", {"base": "K.generator", "exp": BIG, "mod": "K.field_order"}, params=["base", "exp", "mod"], why="public value = g ** x mod p in the peer's group, with the same unreduced exponent compute_kek uses"),
            S("M", "FFCDHKey", {"key_length": "K.key_length", "field_order": "K.field_order", "generator": "K.generator", "public_key": "P"}, why="our key blob repeats the peer's key_length, p and g: both sides pack the shared secret at the same width"),
        ], "compute_public_key DH", ret="M.pack()")
    for ps in br["ECDH"]:
        run_recipe(repo, chk, "O2", f, ps, [
            S("E", "ECDHKey.unpack", {"data": "peer_public_key"}),
            S("D", "derive_private_key", {"private_value": BIG, "curve": "E.curve_and_hash[0]"}, params=["private_value", "curve"], why="ECDH public key derived from the same private scalar on the peer's curve"),
            S("Q", "public_numbers", recv="D.public_key()"),
            S("M", "ECDHKey", {"curve_name": "E.curve_name", "key_length": "E.key_length", "x": "Q.x", "y": "Q.y"}, why="our ECDH key blob repeats the peer's curve and key_length"),
        ], "compute_public_key ECDH", ret="M.pack()")


def kdf_concat(repo: Repo, chk: Check) -> None:
    f = repo.func("_crypto.kdf_concat")
    chk.analysed(f)
    summ = Summary(f, ["algorithm", "shared_secret", "algorithm_id", "party_uinfo", "party_vinfo", "length"])
    for ps in summ.returning():
        run_recipe(repo, chk, "O2", f, ps, [
            S("C", "ConcatKDFHash", {"algorithm": "algorithm", "length": "length", "otherinfo": "b''.join([algorithm_id, party_uinfo, party_vinfo])"}, params=["algorithm", "length", "otherinfo"], why="otherinfo = AlgorithmID || PartyUInfo || PartyVInfo"),
            S("D", "derive", {"key_material": "shared_secret"}, params=["key_material"], recv="C", why="derives from the shared secret"),
        ], "kdf_concat", ret="D")


from .recipe import S, run_recipe  # noqa: E402
from .util import ev_args  # noqa: E402
