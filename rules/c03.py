"""C03 - KEK derivation agrees on both sides and with an independent implementation."""

from __future__ import annotations

import ast
import typing as t

from sa.flow import ReachingDefs
from sa.load import AnalysisError, Func, Repo, body_nodes, unparse
from sa.report import Check, Site


def calls(f: Func, name: str) -> t.List[ast.Call]:
    return sorted([n for n in body_nodes(f.node) if isinstance(n, ast.Call) and unparse(n.func) == name], key=lambda n: n.lineno)


def argmap(repo: Repo, call: ast.Call, callee: t.Optional[Func], rd: t.Optional[ReachingDefs] = None) -> t.Dict[str, str]:
    """parameter name -> argument expression; with `rd` in provenance normal form (locals replaced by what defines them)."""
    from sa.flow import provenance

    def txt(e: ast.expr) -> str:
        return provenance(rd, e, call) if rd is not None else unparse(e)

    out: t.Dict[str, str] = {}
    params = [p for p in (callee.params if callee else []) if p not in ("self", "cls")]
    for i, a in enumerate(call.args):
        out[params[i] if i < len(params) else str(i)] = txt(a)
    for k in call.keywords:
        if k.arg:
            out[k.arg] = txt(k.value)
    return out


def expect(chk: Check, rule: str, f: Func, call: t.Optional[ast.Call], got: t.Dict[str, str], want: t.Dict[str, str], what: str) -> None:
    site = Site.of(f, call, None) if call is not None else Site.of(f, construct=what)
    bad = {k: (got.get(k), v) for k, v in want.items() if got.get(k) != v}
    chk.ob(rule, site, not bad, f"{what}: " + ", ".join(f"{k}={v}" for k, v in want.items()) if not bad else f"{what}: " + "; ".join(f"{k} is {g!r}, the construction needs {w!r}" for k, (g, w) in bad.items()))


def run(repo: Repo, chk: Check) -> None:
    chk.scope_decides = (
        "that both sides are one computation on dual inputs: O1 nonce mode - the kdf calls of new_kek and get_kek have pairwise equal arguments "
        "(hash from the envelope's KDF parameters, L2 key, label, the key_info nonce, 32 bytes); O2 public-key mode - both sides reach "
        "compute_kek with the same algorithm/secret parameters, the decrypt side derives the private key with ceil(private_key_length/8) bytes, "
        "the same expression the encrypt side draws, and the recipe of compute_kek (DH pow / ECDH exchange with the unreduced private key, "
        "SP800-56A concat KDF with SHA256|curve hash and the fixed UTF-16 otherinfo, final SP800-108 KDF) is as specified; O3 every group "
        "element / coordinate / shared secret is packed big-endian at the structure's key_length, never at a width derived from the value."
    )
    chk.scope_not = "equality of the derived bytes with an independent implementation (numerical)."
    chk.trusted = ["cryptography's KBKDFHMAC, ConcatKDFHash, ECDH; Python pow(); the recipe transcribed from MS-GKDI 3.1.4.1.2 / observed BCrypt usage"]
    gkdi = repo.mod("_gkdi")
    kdf = repo.func("_crypto.kdf")
    new_kek = repo.method("_gkdi.GroupKeyEnvelope", "new_kek")
    get_kek = repo.method("_gkdi.GroupKeyEnvelope", "get_kek")
    chk.analysed(new_kek, get_kek)
    # ---------------------------------------------------------------- O1 nonce mode
    kn, kg = calls(new_kek, "kdf"), calls(get_kek, "kdf")
    if len(kn) != 1 or len(kg) != 1:
        raise AnalysisError("nonce-mode kdf call sites changed")
    H = "KDFParameters.unpack(self.kdf_parameters).hash_algorithm"
    L2 = "compute_l2_key(KDFParameters.unpack(self.kdf_parameters).hash_algorithm, key_id.l1, key_id.l2, self)"
    rdn0, rdg0 = ReachingDefs(new_kek), ReachingDefs(get_kek)
    expect(chk, "O1", new_kek, kn[0], argmap(repo, kn[0], kdf, rdn0), {"algorithm": H, "secret": "self.l2_key", "label": "KDS_SERVICE_LABEL", "context": "os.urandom(32)", "length": "32"}, "encrypt side KEK = KDF(hash of the envelope's KDF parameters, L2 key, label, fresh nonce, 32)")
    expect(chk, "O1", get_kek, kg[0], argmap(repo, kg[0], kdf, rdg0), {"algorithm": H, "secret": L2, "label": "KDS_SERVICE_LABEL", "context": "key_id.key_info", "length": "32"}, "decrypt side KEK = KDF(same hash, L2 key of the blob's position, label, stored nonce, 32)")
    for f in (new_kek, get_kek):
        guard = [n for n in body_nodes(f.node) if isinstance(n, ast.If) and unparse(n.test) == "self.kdf_algorithm != 'SP800_108_CTR_HMAC'" and any(isinstance(x, ast.Raise) for x in n.body)]
        chk.ob("O1", Site.of(f, construct=f"{f.name}: KDF algorithm check"), bool(guard), "only SP800_108_CTR_HMAC is accepted")
    # mode switch on the right flags
    ifn = [n for n in body_nodes(new_kek.node) if isinstance(n, ast.If) and unparse(n.test) == "self.is_public_key"]
    ifg = [n for n in body_nodes(get_kek.node) if isinstance(n, ast.If) and unparse(n.test) == "key_id.is_public_key"]
    chk.ob("O2", Site.of(new_kek, ifn[0] if ifn else None, None if ifn else "mode switch"), len(ifn) == 1 and any(x is kn[0] for x in ast.walk(ast.Module(body=ifn[0].orelse, type_ignores=[]))), "encrypt side: public-key mode iff the envelope carries a public key")
    chk.ob("O2", Site.of(get_kek, ifg[0] if ifg else None, None if ifg else "mode switch"), len(ifg) == 1 and any(x is kg[0] for x in ast.walk(ast.Module(body=ifg[0].orelse, type_ignores=[]))), "decrypt side: public-key mode iff the blob's key identifier says so")
    # ---------------------------------------------------------------- O2 public-key mode
    ck = repo.func("_gkdi.compute_kek")
    ckp = repo.func("_gkdi.compute_kek_from_public_key")
    cpk = repo.func("_gkdi.compute_public_key")
    chk.analysed(ck, ckp, cpk)
    c_new = calls(new_kek, "compute_kek")
    c_get = calls(get_kek, "compute_kek_from_public_key")
    if len(c_new) != 1 or len(c_get) != 1:
        raise AnalysisError("public-key mode call sites changed")
    expect(chk, "O2", new_kek, c_new[0], argmap(repo, c_new[0], ck, rdn0), {"algorithm": H, "secret_algorithm": "self.secret_algorithm", "secret_parameters": "self.secret_parameters", "private_key": "os.urandom(math.ceil(self.private_key_length / 8))", "public_key": "self.l2_key"}, "encrypt side compute_kek with ceil(private_key_length / 8) fresh bytes")
    expect(chk, "O2", get_kek, c_get[0], argmap(repo, c_get[0], ckp, rdg0), {"algorithm": H, "seed": L2, "secret_algorithm": "self.secret_algorithm", "secret_parameters": "self.secret_parameters", "public_key": "key_id.key_info", "private_key_length": "math.ceil(self.private_key_length / 8)"}, "decrypt side compute_kek_from_public_key with the same private key length")
    # compute_kek_from_public_key: private key = KDF(hash, L2 seed, label, secret_algorithm||0, n); then compute_kek
    kk = calls(ckp, "kdf")
    cc = calls(ckp, "compute_kek")
    if len(kk) != 1 or len(cc) != 1:
        raise AnalysisError("compute_kek_from_public_key changed")
    expect(chk, "O2", ckp, kk[0], argmap(repo, kk[0], kdf), {"algorithm": "algorithm", "secret": "seed", "label": "KDS_SERVICE_LABEL", "context": "(secret_algorithm + '\\x00').encode('utf-16-le')", "length": "private_key_length"}, "private key = KDF(hash, L2 key, label, algorithm name, length)")
    expect(chk, "O2", ckp, cc[0], argmap(repo, cc[0], ck, ReachingDefs(ckp)), {"algorithm": "algorithm", "secret_algorithm": "secret_algorithm", "secret_parameters": "secret_parameters", "private_key": "kdf(algorithm, seed, KDS_SERVICE_LABEL, (secret_algorithm + '\\x00').encode('utf-16-le'), private_key_length)", "public_key": "public_key"}, "then the same compute_kek as the encrypt side, keyed with the derived private key")
    rets = [n for n in body_nodes(ckp.node) if isinstance(n, ast.Return)]
    chk.ob("O2", Site.of(ckp, rets[0] if rets else None, None if rets else "return"), len(rets) == 1 and rets[0].value is cc[0], "returns that KEK")
    compute_kek_recipe(repo, chk, ck)
    compute_public_key(repo, chk, cpk)
    kdf_concat(repo, chk)
    # ---------------------------------------------------------------- O3 fixed width (layout tables)
    from . import codecs
    from .c11 import reference
    from sa import layout
    from .c11 import _cond_key
    from .reftab import first_difference, sigs_of

    ref = reference()
    for q in ("_gkdi.FFCDHKey", "_gkdi.ECDHKey", "_gkdi.FFCDHParameters"):
        codecs.plain(repo, chk, "O3", q)
        cls = repo.cls(q)
        for p in layout.writer_paths(repo, cls.methods["pack"]):
            key = _cond_key(p.conds)
            d = first_difference(sigs_of(p.segs), ref[q].get(key, []))
            chk.ob("O3", Site.of(cls.methods["pack"], construct=f"{cls.name}.pack fixed-width big-endian integers"), d is None, "every integer is written big-endian at key_length bytes (leading zeros kept)" if d is None else d)
    del gkdi


def compute_kek_recipe(repo: Repo, chk: Check, f: Func) -> None:
    rd = ReachingDefs(f)
    # DH branch
    pows = calls(f, "pow")
    ups = calls(f, "FFCDHKey.unpack")
    if len(pows) != 1 or len(ups) != 1:
        raise AnalysisError("compute_kek: DH branch changed")
    key = rd.single_def("dh_pub_key", pows[0])
    okk = key is not None and key.value is ups[0] and unparse(ups[0].args[0]) == "public_key"
    chk.ob("O2", Site.of(f, ups[0]), okk, "peer key decoded from the public_key argument")
    a = [unparse(x) for x in pows[0].args]
    want = ["dh_pub_key.public_key", "int.from_bytes(private_key, byteorder='big')", "dh_pub_key.field_order"]
    chk.ob("O2", Site.of(f, pows[0]), a == want, "shared secret = y ** x mod p with the whole big-endian private key as exponent" if a == want else f"pow arguments are {a}, the construction is {want} (the exponent must not be reduced or re-encoded: the other side and Windows use the full value)")
    tb = [n for n in body_nodes(f.node) if isinstance(n, ast.Call) and isinstance(n.func, ast.Attribute) and n.func.attr == "to_bytes"]
    okw = len(tb) == 1 and unparse(tb[0].func.value) == "shared_secret_int" and tb[0].args and unparse(tb[0].args[0]) == "dh_pub_key.key_length" and any(k.arg == "byteorder" and unparse(k.value) == "'big'" for k in tb[0].keywords)
    d = rd.single_def("shared_secret_int", tb[0]) if tb else None
    okw = okw and d is not None and d.value is pows[0]
    chk.ob("O3", Site.of(f, tb[0] if tb else None, None if tb else "shared secret packing"), bool(okw), "shared secret packed big-endian at the key's key_length (leading zero bytes kept)" if okw else f"shared secret is packed as '{unparse(tb[0]) if tb else '?'}': a width derived from the value drops leading zero bytes and changes the KEK for 1 in 256 secrets")
    # hash choice
    sha = [n for n in body_nodes(f.node) if isinstance(n, ast.Assign) and unparse(n.targets[0]) == "secret_hash_algorithm"]
    oks = len(sha) == 1 and unparse(sha[0].value) == "hashes.SHA256()"
    chk.ob("O2", Site.of(f, sha[0] if sha else None, None if sha else "DH secret hash"), oks, "DH: SP800-56A with SHA256")
    # branch conditions
    ifs = [n for n in body_nodes(f.node) if isinstance(n, ast.If) and unparse(n.test) == "secret_algorithm == 'DH'"]
    okb = len(ifs) == 1 and len(ifs[0].orelse) == 1 and isinstance(ifs[0].orelse[0], ast.If) and unparse(ifs[0].orelse[0].test) == "secret_algorithm.startswith('ECDH_P')"
    chk.ob("O2", Site.of(f, ifs[0] if ifs else None, None if ifs else "algorithm switch"), okb, "DH / ECDH_P* / otherwise NotImplementedError")
    # ECDH branch
    eu = calls(f, "ECDHKey.unpack")
    pn = calls(f, "ec.EllipticCurvePublicNumbers")
    dp = calls(f, "ec.derive_private_key")
    ex = calls(f, "ecdh_private.exchange")
    ok = len(eu) == 1 and unparse(eu[0].args[0]) == "public_key" and len(pn) == 1 and [unparse(x) for x in pn[0].args] == ["ecdh_pub_key_info.x", "ecdh_pub_key_info.y", "curve"]
    chk.ob("O2", Site.of(f, pn[0] if pn else None, None if pn else "ECDH peer key"), ok, "peer point (x, y) on the key's curve")
    ok = len(dp) == 1 and [unparse(x) for x in dp[0].args] == ["int.from_bytes(private_key, byteorder='big')", "curve"]
    chk.ob("O2", Site.of(f, dp[0] if dp else None, None if dp else "ECDH private key"), ok, "private scalar = whole big-endian private key" if ok else f"derive_private_key arguments are {[unparse(x) for x in dp[0].args] if dp else '?'}")
    ok = len(ex) == 1 and [unparse(x) for x in ex[0].args] == ["ec.ECDH()", "ecdh_pub_key"]
    chk.ob("O2", Site.of(f, ex[0] if ex else None, None if ex else "ECDH exchange"), ok, "shared secret = ECDH exchange")
    ch = [n for n in body_nodes(f.node) if isinstance(n, ast.Assign) and unparse(n.targets[0]) == "(curve, secret_hash_algorithm)"]
    ok = len(ch) == 1 and unparse(ch[0].value) == "ecdh_pub_key_info.curve_and_hash"
    chk.ob("O2", Site.of(f, ch[0] if ch else None, None if ch else "curve and hash"), ok, "curve and SP800-56A hash from the key's curve")
    cah = repo.method("_gkdi.ECDHKey", "curve_and_hash")
    tab = [n for n in body_nodes(cah.node) if isinstance(n, ast.Dict)]
    want_tab = {"'P256'": "(ec.SECP256R1(), hashes.SHA256())", "'P384'": "(ec.SECP384R1(), hashes.SHA384())", "'P521'": "(ec.SECP521R1(), hashes.SHA512())"}
    got_tab = {unparse(k): unparse(v) for k, v in zip(tab[0].keys, tab[0].values)} if tab else {}
    chk.ob("O2", Site.of(cah, tab[0] if tab else None, None if tab else "curve table"), got_tab == want_tab, "P256/SHA256, P384/SHA384, P521/SHA512" if got_tab == want_tab else f"curve table is {got_tab}")
    # concat KDF and final KDF
    kc = calls(f, "kdf_concat")
    kf = calls(f, "kdf")
    if len(kc) != 1 or len(kf) != 1:
        raise AnalysisError("compute_kek: KDF tail changed")
    expect(chk, "O2", f, kc[0], argmap(repo, kc[0], repo.func("_crypto.kdf_concat")), {"algorithm": "secret_hash_algorithm", "shared_secret": "shared_secret", "algorithm_id": "'SHA512\\x00'.encode('utf-16-le')", "party_uinfo": "kek_context", "party_vinfo": "KDS_SERVICE_LABEL", "length": "secret_hash_algorithm.digest_size"}, "SP800-56A concat KDF")
    expect(chk, "O2", f, kf[0], argmap(repo, kf[0], repo.func("_crypto.kdf")), {"algorithm": "algorithm", "secret": "secret", "label": "KDS_SERVICE_LABEL", "context": "kek_context", "length": "32"}, "final SP800-108 KDF")
    ctx = rd.single_def("kek_context", kf[0])
    okc = ctx is not None and ctx.value is not None and unparse(ctx.value) == "'KDS public key\\x00'.encode('utf-16-le')"
    chk.ob("O2", Site.of(f, ctx.stmt if ctx is not None else None, None if ctx is not None else "kek_context"), okc, "context = 'KDS public key' UTF-16 with terminator")
    sd = rd.single_def("secret", kf[0])
    chk.ob("O2", Site.of(f, kf[0]), sd is not None and sd.value is kc[0], "the concat KDF output keys the final KDF")
    rets = [n for n in body_nodes(f.node) if isinstance(n, ast.Return)]
    chk.ob("O2", Site.of(f, rets[0] if rets else None, None if rets else "return"), len(rets) == 1 and rets[0].value is kf[0], "returns that KEK")
    okf, lab = repo.try_fold(ast.Name(id="KDS_SERVICE_LABEL", ctx=ast.Load()), f.mod)
    chk.ob("O2", Site(f.file, "_gkdi module", 0, "KDS_SERVICE_LABEL"), okf and lab == "KDS service\0".encode("utf-16-le"), "label = 'KDS service' UTF-16 with terminator")
    # both shared_secret definitions feed the concat KDF
    ds = rd.reaching("shared_secret", kc[0])
    chk.ob("O2", Site.of(f, kc[0]), len(ds) == 2, "DH and ECDH secrets both flow into the concat KDF")


def compute_public_key(repo: Repo, chk: Check, f: Func) -> None:
    rd = ReachingDefs(f)
    pows = calls(f, "pow")
    ups = calls(f, "FFCDHKey.unpack")
    ctor = calls(f, "FFCDHKey")
    if len(pows) != 1 or len(ups) != 1 or len(ctor) != 1:
        raise AnalysisError("compute_public_key: DH branch changed")
    a = [unparse(x) for x in pows[0].args]
    want = ["dh_pub_key.generator", "int.from_bytes(private_key, byteorder='big')", "dh_pub_key.field_order"]
    chk.ob("O2", Site.of(f, pows[0]), a == want and unparse(ups[0].args[0]) == "peer_public_key", "public value = g ** x mod p in the peer's group" if a == want else f"pow arguments are {a}, expected {want}")
    ca = [unparse(x) for x in ctor[0].args] + [f"{k.arg}={unparse(k.value)}" for k in ctor[0].keywords]
    wantc = ["dh_pub_key.key_length", "dh_pub_key.field_order", "dh_pub_key.generator", "my_pub_key"]
    d = rd.single_def("my_pub_key", ctor[0])
    okc = ca == wantc and d is not None and d.value is pows[0]
    chk.ob("O3", Site.of(f, ctor[0]), okc, "our key blob repeats the peer's key_length, p and g: both sides pack the shared secret at the same width" if okc else f"our FFCDHKey is built from {ca}, expected {wantc} (a different key_length makes the two sides pack the shared secret at different widths)")
    eu = calls(f, "ECDHKey.unpack")
    ec = calls(f, "ECDHKey")
    dp = calls(f, "ec.derive_private_key")
    ok = len(eu) == 1 and unparse(eu[0].args[0]) == "peer_public_key" and len(dp) == 1 and [unparse(x) for x in dp[0].args] == ["int.from_bytes(private_key, byteorder='big')", "curve"]
    chk.ob("O2", Site.of(f, dp[0] if dp else None, None if dp else "ECDH private key"), ok, "ECDH public key derived from the same private scalar on the peer's curve")
    cur = rd.single_def("curve", dp[0]) if dp else None
    chk.ob("O2", Site.of(f, construct="ECDH curve"), cur is not None and cur.value is not None and unparse(cur.value) == "ecdh_pub_key.curve_and_hash[0]", "curve = the peer key's curve")
    ca = [unparse(x) for x in ec[0].args] if len(ec) == 1 else []
    okc = ca == ["ecdh_pub_key.curve_name", "ecdh_pub_key.key_length", "my_ecdh_pub_key.x", "my_ecdh_pub_key.y"]
    chk.ob("O3", Site.of(f, ec[0] if ec else None, None if ec else "ECDHKey"), okc, "our ECDH key blob repeats the peer's curve and key_length" if okc else f"our ECDHKey is built from {ca}")
    rets = [n for n in body_nodes(f.node) if isinstance(n, ast.Return)]
    okr = len(rets) == 2 and all(isinstance(r.value, ast.Call) and unparse(r.value.func).endswith(".pack") for r in rets)
    chk.ob("O2", Site.of(f, construct="returns packed key blobs"), okr, "returns the packed key")


def kdf_concat(repo: Repo, chk: Check) -> None:
    f = repo.func("_crypto.kdf_concat")
    chk.analysed(f)
    j = [n for n in body_nodes(f.node) if isinstance(n, ast.Assign) and unparse(n.targets[0]) == "otherinfo"]
    ok = len(j) == 1 and unparse(j[0].value) == "b''.join([algorithm_id, party_uinfo, party_vinfo])"
    chk.ob("O2", Site.of(f, j[0] if j else None, None if j else "otherinfo"), ok, "otherinfo = AlgorithmID || PartyUInfo || PartyVInfo" if ok else f"otherinfo is {unparse(j[0].value) if j else '?'}")
    c = calls(f, "ConcatKDFHash")
    kws = {k.arg: unparse(k.value) for k in c[0].keywords if k.arg} if len(c) == 1 else {}
    ok = len(c) == 1 and [unparse(a) for a in c[0].args] == ["algorithm"] and kws == {"length": "length", "otherinfo": "otherinfo"}
    chk.ob("O2", Site.of(f, c[0] if c else None, None if c else "ConcatKDFHash"), ok, "ConcatKDFHash(algorithm, length, otherinfo)")
    d = [n for n in body_nodes(f.node) if isinstance(n, ast.Call) and isinstance(n.func, ast.Attribute) and n.func.attr == "derive"]
    chk.ob("O2", Site.of(f, d[0] if d else None, None if d else "derive"), len(d) == 1 and unparse(d[0].args[0]) == "shared_secret", "derives from the shared secret")
