"""C02 - derived group keys equal the MS-GKDI chain from any covering seed material."""

from __future__ import annotations

import ast
import itertools
import typing as t

from sa import layout, ordertab
from sa.cfg import build
from sa.flow import ReachingDefs
from sa.intervals import World
from sa.load import AnalysisError, Func, Repo, body_nodes, unparse
from sa.loops import LoopChecker
from sa.report import Check, Site

from .reftab import F, INT, UUID, cat, first_difference, sigs_of


def run(repo: Repo, chk: Check) -> None:
    chk.scope_decides = (
        "O1 both chain walks of compute_l2_key terminate with at most 31 KDF steps each (loop certificates on intervals established by the "
        "range guards); O2 a raise is taken exactly on the sign vectors where the seed position is <lex the requested one (no key for an "
        "uncovered position, no spurious rejection); O3 chain semantics of compute_l2_key: each walk loop is summarised (recognised while / "
        "for-range templates), the control flow composed path by path, and for every covered valuation of a boundary grid of (envelope L1, L2, "
        "requested L1, L2) - all 32^4 in the thorough tier - the returned term expands to the envelope's seed key followed by exactly the "
        "MS-GKDI 3.1.4.1.2 steps (label, 512 bit, context RKID||L0||L1||L2; pre-decrement and reseed conventions included); the L0/L1 seed "
        "recipe and the context serialisation (4 byte little-endian signed) as tables."
    )
    chk.scope_not = "equality of the derived bytes with the MS-GKDI chain (values of HMAC outputs)."
    chk.trusted = ["cryptography's KBKDFHMAC", "MS-GKDI 3.1.4.1.2 recipe transcribed in this rule"]
    l2_obligations(repo, chk)
    l1_recipe(repo, chk)
    kdf_context(repo, chk)
    kdf_wrapper(repo, chk)
    consumer(repo, chk)
    # the cache's cover test decides which seed material reaches compute_l2_key (anchor: KeyCache._get_key)
    from .c10 import get_key

    get_key(repo, chk)


def l2_obligations(repo: Repo, chk: Check) -> None:
    f = repo.func("_gkdi.compute_l2_key")
    chk.analysed(f)
    world = World(repo)
    certs = [c for c in LoopChecker(world, f).all() if isinstance(c.node, (ast.While, ast.For))]
    chk.count("chain walk loops", len(certs))
    for c in certs:
        site = Site.of(f, c.node, c.text)
        if c.kind is None:
            chk.ob("O1", site, False, f"no termination certificate: {c.why}")
            continue
        n = None
        if c.bound and c.bound.startswith("<= "):
            try:
                n = int(c.bound.split()[1])
            except ValueError:
                n = None
        ok = c.kind in ("V-COUNT-DOWN", "V-RANGE") and n is not None and n <= 31
        chk.ob("O1", site, ok, f"{c.kind}: {c.why} ({c.bound})" if ok else f"loop is certified {c.kind} but not bounded by 31 steps ({c.why}; bound {c.bound})")
    chk.require_min("chain walk loops", 2)
    from .chain import chain_semantics

    chain_semantics(repo, chk, f, "O3", full=chk.tier == "thorough")


# ------------------------------------------------------------------------- O2
def _aliases(f: Func) -> t.Dict[str, str]:
    """local name -> role expression it was initialised from (l1 = rk.l1)."""
    out: t.Dict[str, str] = {}
    for s in f.node.body:
        if isinstance(s, ast.Assign) and len(s.targets) == 1 and isinstance(s.targets[0], ast.Name) and isinstance(s.value, ast.Attribute):
            out.setdefault(s.targets[0].id, unparse(s.value))
    return out


def cover_guard(repo: Repo, chk: Check, f: Func) -> None:
    al = _aliases(f)
    env_l1 = [k for k, v in al.items() if v.endswith(".l1")] + [v for v in al.values() if v.endswith(".l1")]
    env_l2 = [k for k, v in al.items() if v.endswith(".l2")] + [v for v in al.values() if v.endswith(".l2")]
    fa = {**{n: "l1" for n in env_l1}, **{n: "l2" for n in env_l2}}
    fb = {f.params[1]: "l1", f.params[2]: "l2"}
    first_loop = min([n.lineno for n in body_nodes(f.node) if isinstance(n, (ast.While, ast.For))] or [10**9])
    guards = [s for s in f.node.body if isinstance(s, ast.If) and s.lineno < first_loop and s.body and isinstance(s.body[-1], ast.Raise) and not s.orelse]
    order_guards = []
    for gd in guards:
        try:
            for vec in ordertab.vectors(["l1", "l2"]):
                ordertab.eval_pred(gd.test, ordertab.pair_sign(fa, fb, vec))
            order_guards.append(gd)
        except ordertab.NotOrderPredicate:
            continue
    # guards between the aliasing and the loops must not be preceded by a modification of the compared names
    site = Site.of(f, order_guards[0].test if order_guards else None, None if order_guards else "cover guard")
    if not order_guards:
        # arithmetic formulations are evaluated over the finite index domain instead
        arith = [gd for gd in guards if _mentions(gd.test, set(fa)) >= 1 and _mentions(gd.test, set(fb)) >= 1 and _is_relation(gd.test, fa, fb)]
        if arith:
            ok, why = _finite_cover(arith, fa, fb)
            chk.ob("O2", Site.of(f, arith[0].test), ok, why)
            return
        chk.ob("O2", site, False, "no guard compares the seed position with the requested position before the chain walk: an uncovered request returns a wrong key or never terminates")
        return
    rows = []
    bad = []
    for vec in ordertab.vectors(["l1", "l2"]):
        raised = any(ordertab.eval_pred(gd.test, ordertab.pair_sign(fa, fb, vec)) for gd in order_guards)
        uncovered = ordertab.lex_cmp(vec, ["l1", "l2"]) < 0
        rows.append((vec["l1"], vec["l2"], raised))
        if uncovered and not raised:
            bad.append(f"seed with {_w(vec['l1'])} L1 / {_w(vec['l2'])} L2 than requested is not rejected")
        if raised and not uncovered:
            bad.append(f"seed with {_w(vec['l1'])} L1 / {_w(vec['l2'])} L2 than requested is rejected although it covers the request")
    chk.table("cover guard truth table (sign l1, sign l2, raises)", rows)
    chk.ob("O2", site, not bad, "raise <=> seed position <lex requested position (9 sign vectors)" if not bad else "; ".join(bad[:3]))


def _w(s: int) -> str:
    return {-1: "lower", 0: "equal", 1: "higher"}[s]


def _mentions(e: ast.expr, names: t.Set[str]) -> int:
    return len({unparse(n) for n in ast.walk(e) if isinstance(n, (ast.Name, ast.Attribute)) and unparse(n) in names})


def _is_relation(e: ast.expr, fa: t.Dict[str, str], fb: t.Dict[str, str]) -> bool:
    return all(isinstance(n, (ast.Compare, ast.BoolOp, ast.BinOp, ast.UnaryOp, ast.Name, ast.Attribute, ast.Constant, ast.cmpop, ast.operator, ast.boolop, ast.unaryop, ast.expr_context)) for n in ast.walk(e))


def _finite_cover(guards: t.List[ast.If], fa: t.Dict[str, str], fb: t.Dict[str, str]) -> t.Tuple[bool, str]:
    """Evaluate pure arithmetic relations over the whole index domain [0, 31]^4 (finite abstraction = the domain itself)."""
    import operator as op

    ops = {ast.Add: op.add, ast.Sub: op.sub, ast.Mult: op.mul, ast.FloorDiv: op.floordiv, ast.Mod: op.mod, ast.LShift: op.lshift, ast.BitOr: op.or_, ast.BitAnd: op.and_}
    cmps = {ast.Lt: op.lt, ast.LtE: op.le, ast.Gt: op.gt, ast.GtE: op.ge, ast.Eq: op.eq, ast.NotEq: op.ne}

    def ev(e: ast.expr, env: t.Dict[str, int]) -> t.Any:
        if isinstance(e, ast.Constant):
            return e.value
        if isinstance(e, (ast.Name, ast.Attribute)):
            return env[unparse(e)]
        if isinstance(e, ast.BinOp):
            return ops[type(e.op)](ev(e.left, env), ev(e.right, env))
        if isinstance(e, ast.UnaryOp):
            v = ev(e.operand, env)
            return (not v) if isinstance(e.op, ast.Not) else (-v if isinstance(e.op, ast.USub) else v)
        if isinstance(e, ast.BoolOp):
            vals = [ev(v, env) for v in e.values]
            return all(vals) if isinstance(e.op, ast.And) else any(vals)
        if isinstance(e, ast.Compare):
            left = ev(e.left, env)
            for o, r in zip(e.ops, e.comparators):
                right = ev(r, env)
                if not cmps[type(o)](left, right):
                    return False
                left = right
            return True
        raise KeyError(unparse(e))

    dom = range(32)
    try:
        for a1, a2, b1, b2 in itertools.product(dom, dom, dom, dom):
            env = {}
            for n, r in fa.items():
                env[n] = a1 if r == "l1" else a2
            for n, r in fb.items():
                env[n] = b1 if r == "l1" else b2
            raised = any(ev(gd.test, env) for gd in guards)
            uncovered = (a1, a2) < (b1, b2)
            if raised != uncovered:
                return False, f"seed ({a1},{a2}) asked for ({b1},{b2}): " + ("rejected although it covers the request" if raised else "not rejected although it does not cover the request") + f" by '{unparse(guards[0].test)}'"
    except (KeyError, ZeroDivisionError) as e:
        return False, f"cover guard '{unparse(guards[0].test)}' is not a relation between seed and requested position ({e})"
    return True, "raise <=> seed <lex request, checked on all 32^4 index combinations"


# ------------------------------------------------------------------------- O3
def _kdf_calls(f: Func) -> t.List[ast.Call]:
    from .util import source_order

    pos = source_order(f)
    return sorted([n for n in body_nodes(f.node) if isinstance(n, ast.Call) and unparse(n.func) == "kdf"], key=lambda n: pos.get(id(n), 0))


def _kdf_common(repo: Repo, chk: Check, f: Func, c: ast.Call, length: int = 64) -> None:
    site = Site.of(f, c, f"kdf(..) at line offset {c.lineno - f.node.lineno}")
    okl = len(c.args) == 5 and unparse(c.args[2]) == "KDS_SERVICE_LABEL"
    chk.ob("O3", site, okl, "label = KDS service" if okl else f"kdf label is {unparse(c.args[2]) if len(c.args) > 2 else '?'}")
    okn = len(c.args) == 5 and repo.try_fold(c.args[4], f.mod) == (True, length)
    chk.ob("O3", site, okn, f"derives {length} bytes" if okn else f"kdf length is {unparse(c.args[4]) if len(c.args) > 4 else '?'}, MS-GKDI says {length * 8} bits")
    oka = len(c.args) == 5 and unparse(c.args[0]) == f.params[0 if f.name != "compute_l1_key" else 4]
    chk.ob("O3", site, oka, "hash algorithm passed through" if oka else f"kdf algorithm is {unparse(c.args[0])}")


def _ctx_args(c: ast.Call, f: t.Optional[Func] = None) -> t.Optional[t.List[str]]:
    ctx = c.args[3] if len(c.args) > 3 else None
    if f is not None and isinstance(ctx, ast.Name):
        # a context hoisted into a local: follow its single definition
        from sa.flow import ReachingDefs

        d = ReachingDefs(f).single_def(ctx.id, c)
        if d is not None and d.kind == "assign" and d.index is None and d.value is not None:
            ctx = d.value
    if isinstance(ctx, ast.Call) and unparse(ctx.func) == "compute_kdf_context" and len(ctx.args) == 4:
        return [unparse(a) for a in ctx.args]
    return None


def recipe_l2(repo: Repo, chk: Check, f: Func) -> None:
    g = build(f.node)
    rd = ReachingDefs(f, g)
    calls = _kdf_calls(f)
    from .util import source_order

    pos_ = source_order(f)
    loops = sorted([n for n in body_nodes(f.node) if isinstance(n, (ast.While, ast.For))], key=lambda n: pos_.get(id(n), 0))
    if len(calls) != 3 or len(loops) != 2:
        raise AnalysisError(f"compute_l2_key: expected 3 kdf calls and 2 loops, found {len(calls)} and {len(loops)}")
    al = _aliases(f)
    l1v = next(k for k, v in al.items() if v.endswith(".l1"))
    l2v = next(k for k, v in al.items() if v.endswith(".l2"))
    l1k = next(k for k, v in al.items() if v.endswith(".l1_key"))
    l2k = next(k for k, v in al.items() if v.endswith(".l2_key"))
    rk = f.params[3]
    walk1, reseed, walk2 = calls
    for c in calls:
        chk.count("kdf sites")
        _kdf_common(repo, chk, f, c)
    # L1 walk
    ok = any(x is walk1 for x in ast.walk(loops[0]))
    chk.ob("O3", Site.of(f, walk1), ok, "first derivation is the L1 walk")
    a = _ctx_args(walk1, f)
    want = [f"{rk}.root_key_identifier", f"{rk}.l0", l1v, "-1"]
    chk.ob("O3", Site.of(f, walk1, "L1 walk context"), a == want, f"context(RKID, L0, {l1v}, -1)" if a == want else f"L1 walk context is {a}, expected {want}")
    okk = unparse(walk1.args[1]) == l1k and _assigned_to(walk1, loops[0]) == l1k
    chk.ob("O3", Site.of(f, walk1, "L1 walk chaining"), okk, "L1 key derived from the previous L1 key" if okk else f"L1 walk derives {_assigned_to(walk1, loops[0])} from {unparse(walk1.args[1])}")
    chk.ob("O3", Site.of(f, loops[0], "L1 walk order"), _dec_before(loops[0], l1v, walk1), "index decremented before the derivation" )
    # reseed
    a = _ctx_args(reseed, f)
    want = [f"{rk}.root_key_identifier", f"{rk}.l0", l1v, l2v]
    chk.ob("O3", Site.of(f, reseed, "reseed context"), a == want, f"context(RKID, L0, {l1v}, {l2v}=31)" if a == want else f"reseed context is {a}, expected {want}")
    ifs = [n for n in body_nodes(f.node) if isinstance(n, ast.If) and any(x is reseed for x in ast.walk(n))]
    set31 = bool(ifs) and any(isinstance(s, ast.Assign) and unparse(s.targets[0]) == l2v and repo.try_fold(s.value, f.mod) == (True, 31) and pos_.get(id(s), 0) < pos_.get(id(reseed), 0) for s in ifs[-1].body)
    chk.ob("O3", Site.of(f, reseed, "reseed index"), set31, "L2 index set to 31 before reseeding" if set31 else "the reseed does not start the L2 chain at 31")
    okk = unparse(reseed.args[1]) == l1k and _assigned_to(reseed, ifs[-1] if ifs else f.node) == l2k
    chk.ob("O3", Site.of(f, reseed, "reseed chaining"), okk, "L2(31) derived from the L1 key" if okk else f"reseed derives {_assigned_to(reseed, f.node)} from {unparse(reseed.args[1])}")
    # L2 walk
    ok = any(x is walk2 for x in ast.walk(loops[1]))
    chk.ob("O3", Site.of(f, walk2), ok, "last derivation is the L2 walk")
    a = _ctx_args(walk2, f)
    chk.ob("O3", Site.of(f, walk2, "L2 walk context"), a == want, f"context(RKID, L0, {l1v}, {l2v})" if a == want else f"L2 walk context is {a}, expected {want}")
    okk = unparse(walk2.args[1]) == l2k and _assigned_to(walk2, loops[1]) == l2k
    chk.ob("O3", Site.of(f, walk2, "L2 walk chaining"), okk, "L2 key derived from the previous L2 key" if okk else f"L2 walk derives {_assigned_to(walk2, loops[1])} from {unparse(walk2.args[1])}")
    chk.ob("O3", Site.of(f, loops[1], "L2 walk order"), _dec_before(loops[1], l2v, walk2), "index decremented before the derivation")
    # loop conditions compare the walked index with the requested one of the same level
    for lp, var, req in ((loops[0], l1v, f.params[1]), (loops[1], l2v, f.params[2])):
        if isinstance(lp, ast.While):
            t_: ast.expr = lp.test
            okc = isinstance(t_, ast.Compare) and len(t_.ops) == 1 and ((isinstance(t_.ops[0], ast.Gt) and unparse(t_.left) == var and unparse(t_.comparators[0]) == req) or (isinstance(t_.ops[0], ast.Lt) and unparse(t_.left) == req and unparse(t_.comparators[0]) == var))
        else:
            # for var in range(var - 1, req - 1, -1): visits var-1, ..., req like `while var > req: var -= 1`
            t_ = lp.iter
            okc = unparse(lp.target) == var and isinstance(t_, ast.Call) and unparse(t_.func) == "range" and [unparse(a) for a in t_.args] == [f"{var} - 1", f"{req} - 1", "-1"]
        chk.ob("O3", Site.of(f, t_), okc, f"walks {var} down to {req}" if okc else f"loop '{unparse(t_)}' does not walk {var} down to {req}")
    rets = [n for n in body_nodes(f.node) if isinstance(n, ast.Return)]
    okr = len(rets) == 1 and unparse(rets[0].value) == l2k
    chk.ob("O3", Site.of(f, rets[0] if rets else None, None if rets else "return"), okr, "returns the L2 key")
    del rd


def _assigned_to(call: ast.Call, scope: ast.AST) -> t.Optional[str]:
    for n in ast.walk(scope):
        if isinstance(n, ast.Assign) and n.value is call:
            return unparse(n.targets[0])
    return None


def _dec_before(loop: t.Union[ast.While, ast.For], var: str, call: ast.Call) -> bool:
    if isinstance(loop, ast.For):
        # the loop variable already holds the decremented index in the body; it must not be changed again before the call
        return unparse(loop.target) == var and not any(isinstance(s, (ast.AugAssign, ast.Assign)) and var in [unparse(x) for x in ([s.target] if isinstance(s, ast.AugAssign) else s.targets)] for s in loop.body)
    dec = [s for s in loop.body if isinstance(s, ast.AugAssign) and unparse(s.target) == var and isinstance(s.op, ast.Sub) and unparse(s.value) == "1"]
    if len(dec) != 1:
        return False
    # the decrement is an earlier statement of the loop body than the one containing the call
    idx_dec = loop.body.index(dec[0])
    idx_call = next((i for i, s in enumerate(loop.body) if any(x is call for x in ast.walk(s))), -1)
    return 0 <= idx_dec < idx_call


def l1_recipe(repo: Repo, chk: Check) -> None:
    f = repo.func("_gkdi.compute_l1_key")
    chk.analysed(f)
    calls = _kdf_calls(f)
    if len(calls) != 2:
        raise AnalysisError("compute_l1_key: expected 2 kdf calls")
    p = f.params  # target_sd, root_key_id, l0, root_key, algorithm
    for c in calls:
        chk.count("kdf sites")
        _kdf_common(repo, chk, f, c)
    a0 = _ctx_args(calls[0], f)
    want0 = [p[1], p[2], "-1", "-1"]
    chk.ob("O3", Site.of(f, calls[0], "L0 seed"), a0 == want0 and unparse(calls[0].args[1]) == p[3], "L0 seed = KDF(root key, context(RKID, L0, -1, -1))" if a0 == want0 and unparse(calls[0].args[1]) == p[3] else f"L0 seed is KDF({unparse(calls[0].args[1])}, context{a0})")
    ctx = calls[1].args[3]
    if isinstance(ctx, ast.Name):
        from sa.flow import ReachingDefs as _RD

        d_ = _RD(f).single_def(ctx.id, calls[1])
        if d_ is not None and d_.kind == "assign" and d_.index is None and d_.value is not None:
            ctx = d_.value
    ok1 = isinstance(ctx, ast.BinOp) and isinstance(ctx.op, ast.Add) and isinstance(ctx.left, ast.Call) and unparse(ctx.left.func) == "compute_kdf_context" and [unparse(x) for x in ctx.left.args] == [p[1], p[2], "31", "-1"] and unparse(ctx.right) == p[0]
    seed_name = _assigned_to(calls[0], f.node)
    ok1 = ok1 and unparse(calls[1].args[1]) == seed_name
    chk.ob("O3", Site.of(f, calls[1], "L1(31) seed"), ok1, "L1(31) = KDF(L0 seed, context(RKID, L0, 31, -1) || SD)" if ok1 else f"L1 seed is KDF({unparse(calls[1].args[1])}, {unparse(ctx)})")
    rets = [n for n in body_nodes(f.node) if isinstance(n, ast.Return)]
    chk.ob("O3", Site.of(f, rets[0]), len(rets) == 1 and rets[0].value is calls[1], "returns the L1(31) seed")


def consumer(repo: Repo, chk: Check) -> None:
    """The decrypt side takes its L2 key only from compute_l2_key for the blob's (L1, L2): no shortcut around the derivation."""
    from sa.flow import provenance

    f = repo.method("_gkdi.GroupKeyEnvelope", "get_kek")
    chk.analysed(f)
    rd = ReachingDefs(f)
    uses = [n for n in body_nodes(f.node) if isinstance(n, ast.Call) and unparse(n.func) in ("kdf", "compute_kek_from_public_key")]
    want_tail = ", key_id.l1, key_id.l2, self)"
    for c in uses:
        arg = c.args[1] if unparse(c.func) == "kdf" and len(c.args) > 1 else next((k.value for k in c.keywords if k.arg == "seed"), None)
        if arg is None:
            continue
        pv = provenance(rd, arg, c)
        ok = pv.startswith("compute_l2_key(") and pv.endswith(want_tail)
        chk.ob("O3", Site.of(f, c, f"{unparse(c.func)}: L2 key"), ok, "L2 key = compute_l2_key(hash, key_id.l1, key_id.l2, self)" if ok else f"the L2 key used here is '{pv[:90]}': on some path it does not come from compute_l2_key for the blob's position (an envelope's own l2_key may be absent or belong to another position)")


def kdf_context(repo: Repo, chk: Check) -> None:
    f = repo.func("_gkdi.compute_kdf_context")
    chk.analysed(f)
    p = f.params
    for wp in layout.writer_paths(repo, f):
        got = sigs_of(wp.segs)
        want = cat(UUID(p[0]), INT(F(p[1]), 4, signed=True), INT(F(p[2]), 4, signed=True), INT(F(p[3]), 4, signed=True))
        d = first_difference(got, want)
        chk.ob("O3", Site.of(f, construct="KDF context layout"), d is None, "RKID || L0 || L1 || L2, 4 byte little-endian signed" if d is None else d)


def kdf_wrapper(repo: Repo, chk: Check) -> None:
    from sa.pathsum import Summary

    from .util import ev_args, recv_of

    f = repo.func("_crypto.kdf")
    chk.analysed(f)
    summ = Summary(f, ["algorithm", "secret", "label", "context", "length"])
    if not summ.returning():
        raise AnalysisError("_crypto.kdf: no returning path")
    want = {"algorithm": "algorithm", "mode": "Mode.CounterMode", "length": "length", "label": "label", "context": "context", "rlen": "4", "llen": "4", "location": "CounterLocation.BeforeFixed", "fixed": "None"}
    for ps in summ.returning():
        ctor = [c for c in ps.calls("KBKDFHMAC")]
        if len(ctor) != 1:
            raise AnalysisError("_crypto.kdf: KBKDFHMAC construction changed")
        kws = {}
        for k, v in ev_args(repo, f, ctor[0], ["algorithm", "mode", "length", "rlen", "llen", "location", "label", "context", "fixed"]).items():
            okf, val = repo.try_fold(v, f.mod)
            kws[k] = repr(val) if okf and isinstance(val, int) and not isinstance(val, bool) else ps.text(v)
        for k, v in want.items():
            chk.ob("O3", Site.of(f, ctor[0].node, f"KBKDFHMAC({k}=...)"), kws.get(k) == v, f"{k}={v}" if kws.get(k) == v else f"SP800-108 parameter {k} is {kws.get(k)}, expected {v}")
        der = [c for c in ps.calls("derive") if ps.key(recv_of(t.cast(ast.Call, c.tree))) == ps.key(ctor[0].tree)]
        okd = len(der) == 1 and [ps.text(a) for a in ev_args(repo, f, der[0], ["key_material"]).values()] == ["secret"] and ps.key(ps.value) == ps.key(der[0].tree)
        chk.ob("O3", Site.of(f, der[0].node if der else None, None if der else "derive"), okd, "derives from the secret parameter and returns the result")


# ------------------------------------------------------------------------- O4
def conventions(repo: Repo, chk: Check, f: Func) -> None:
    al = _aliases(f)
    l1v = next(k for k, v in al.items() if v.endswith(".l1"))
    l2v = next(k for k, v in al.items() if v.endswith(".l2"))
    req1 = f.params[1]
    rk = f.params[3]

    def table(e: ast.expr) -> t.Optional[t.List[t.Tuple[bool, int, bool]]]:
        rows = []
        for is31 in (True, False):
            for s in (0, 1):  # under the cover guard the seed L1 is equal or higher
                def sign(a: ast.expr, b: ast.expr) -> t.Optional[int]:
                    ta, tb = unparse(a), unparse(b)
                    l1names = {l1v, f"{rk}.l1"}
                    if ta in l1names and tb == req1:
                        return s
                    if tb in l1names and ta == req1:
                        return -s
                    l2names = {l2v, f"{rk}.l2"}
                    if ta in l2names and tb == "31":
                        return 0 if is31 else -1
                    if tb in l2names and ta == "31":
                        return 0 if is31 else 1
                    return None

                try:
                    rows.append((is31, s, ordertab.eval_pred(e, sign)))
                except ordertab.NotOrderPredicate:
                    return None
        return rows

    rd = ReachingDefs(f)

    def reads_envelope_position(stmt: ast.stmt, e: ast.expr) -> t.Optional[str]:
        """Locals used in the predicate must still hold the envelope's position (only their initial alias reaches)."""
        for n in ast.walk(e):
            if isinstance(n, ast.Name) and n.id in al and al[n.id].rsplit(".", 1)[-1] in ("l1", "l2"):
                ds = rd.reaching(n.id, n)
                if not (len(ds) == 1 and ds[0].value is not None and unparse(ds[0].value) == al[n.id]):
                    return f"'{n.id}' has already been modified when '{unparse(e)}' is evaluated: the decision must be taken on the envelope's own position ({al[n.id]})"
        return None

    # reseed flag initial value
    # the reseed flag: the name tested by the `if` around the kdf call that is outside the two walks
    loops_ = [n for n in body_nodes(f.node) if isinstance(n, (ast.While, ast.For))]
    outside = [c for c in _kdf_calls(f) if not any(any(x is c for x in ast.walk(lp)) for lp in loops_)]
    flag_ifs = [n for n in body_nodes(f.node) if isinstance(n, ast.If) and isinstance(n.test, ast.Name) and outside and any(x is outside[0] for x in ast.walk(n))]
    flag = flag_ifs[-1].test.id if flag_ifs else "reseed_l2"  # type: ignore[attr-defined]
    init = [s for s in f.node.body if isinstance(s, ast.Assign) and unparse(s.targets[0]) == flag]
    ifs = [n for n in body_nodes(f.node) if isinstance(n, ast.If) and unparse(n.test) == flag]
    if not init or not ifs:
        # a different formulation: require that the reseed derivation is guarded by an equivalent condition
        chk.ob("O4", Site.of(f, construct="reseed condition"), False, "the L2 reseed is not controlled by a flag initialised from the envelope position")
    else:
        rows = table(init[0].value)
        site = Site.of(f, init[0])
        stale = reads_envelope_position(init[0], init[0].value)
        if stale:
            chk.ob("O4", site, False, stale)
        if rows is None:
            chk.ob("O4", site, False, f"reseed condition '{unparse(init[0].value)}' is not a predicate of (L2 == 31, seed L1 vs requested L1)")
        else:
            bad = [r for r in rows if r[2] != (r[0] or r[1] != 0)]
            chk.table("reseed truth table (l2==31, sign l1, reseed)", rows)
            chk.ob("O4", site, not bad, "reseed <=> envelope L2 is 31 or its L1 differs from the requested L1" if not bad else "the envelope's L2 key belongs to (envelope L1, envelope L2): when the requested L1 is lower the L2 chain must be restarted from the L1 key, but with " + ", ".join(f"l2==31:{r[0]} and L1 {'higher' if r[1] else 'equal'} -> reseed={r[2]}" for r in bad) + " it is not")
    # pre-decrement: L1 key is for L1-1 unless L2 == 31
    pre = [s for s in f.node.body if isinstance(s, ast.If) and len(s.body) == 1 and isinstance(s.body[0], ast.AugAssign) and unparse(s.body[0].target) == l1v and isinstance(s.body[0].op, ast.Sub)]
    site = Site.of(f, pre[0].test if pre else None, None if pre else "pre-decrement")
    if len(pre) != 1:
        chk.ob("O4", site, False, "the envelope convention 'L1 key is for L1-1 unless L2 == 31' is not applied before the L1 walk")
    else:
        rows = table(pre[0].test)
        stale = reads_envelope_position(pre[0], pre[0].test)
        if stale:
            chk.ob("O4", site, False, stale)
        if rows is None:
            chk.ob("O4", site, False, f"pre-decrement condition '{unparse(pre[0].test)}' is not a predicate of (L2 == 31, seed L1 vs requested L1)")
        else:
            bad = [r for r in rows if r[2] != ((not r[0]) and r[1] != 0)]
            chk.ob("O4", site, not bad, "pre-decrement <=> envelope L2 != 31 and its L1 differs from the requested L1" if not bad else f"pre-decrement condition disagrees with the MS-GKDI 2.2.4 convention on {bad}")
