"""C02 - derived group keys equal the MS-GKDI chain from any covering seed material."""

from __future__ import annotations

import ast
import typing as t

from sa import layout
from sa.cfg import build
from sa.flow import ReachingDefs
from sa.intervals import World
from sa.load import AnalysisError, Func, Repo, body_nodes, unparse
from sa.loops import LoopChecker
from sa.report import Check, Site

from .reftab import F, INT, UUID, cat, first_difference, sigs_of


def run(repo: Repo, chk: Check) -> None:
    chk.scope_decides = (
        "O1 both chain walks of compute_l2_key terminate with at most 31 KDF steps each (loop certificates on intervals established by the "
        "range guards); O2 a raise is taken exactly on the sign vectors where the seed position is <lex the requested one (no key for an "
        "uncovered position, no spurious rejection); O3 chain semantics of compute_l2_key: each walk loop is summarised (recognised while / "
        "for-range templates), the control flow composed path by path, and for every covered valuation of a boundary grid of (envelope L1, L2, "
        "requested L1, L2) - all 32^4 in the thorough tier - the returned term expands to the envelope's seed key followed by exactly the "
        "MS-GKDI 3.1.4.1.2 steps (label, 512 bit, context RKID||L0||L1||L2; pre-decrement and reseed conventions included); the L0/L1 seed "
        "recipe and the context serialisation (4 byte little-endian signed) as tables."
    )
    chk.scope_not = "equality of the derived bytes with the MS-GKDI chain (values of HMAC outputs)."
    chk.trusted = ["cryptography's KBKDFHMAC", "MS-GKDI 3.1.4.1.2 recipe transcribed in this rule"]
    l2_obligations(repo, chk)
    l1_recipe(repo, chk)
    kdf_context(repo, chk)
    kdf_wrapper(repo, chk)
    consumer(repo, chk)
    # the cache's cover test decides which seed material reaches compute_l2_key (anchor: KeyCache._get_key)
    from .c10 import get_key

    get_key(repo, chk)


def l2_obligations(repo: Repo, chk: Check) -> None:
    f = repo.func("_gkdi.compute_l2_key")
    chk.analysed(f)
    world = World(repo)
    certs = [c for c in LoopChecker(world, f).all() if isinstance(c.node, (ast.While, ast.For))]
    chk.count("chain walk loops", len(certs))
    for c in certs:
        site = Site.of(f, c.node, c.text)
        if c.kind is None:
            chk.ob("O1", site, False, f"no termination certificate: {c.why}")
            continue
        n = None
        if c.bound and c.bound.startswith("<= "):
            try:
                n = int(c.bound.split()[1])
            except ValueError:
                n = None
        ok = c.kind in ("V-COUNT-DOWN", "V-RANGE") and n is not None and n <= 31
        chk.ob("O1", site, ok, f"{c.kind}: {c.why} ({c.bound})" if ok else f"loop is certified {c.kind} but not bounded by 31 steps ({c.why}; bound {c.bound})")
    chk.require_min("chain walk loops", 2)
    from .chain import chain_semantics

    chain_semantics(repo, chk, f, "O3", full=chk.tier == "thorough")


# ------------------------------------------------------------------------- O3
def _kdf_calls(f: Func) -> t.List[ast.Call]:
    from .util import source_order

    pos = source_order(f)
    return sorted([n for n in body_nodes(f.node) if isinstance(n, ast.Call) and unparse(n.func) == "kdf"], key=lambda n: pos.get(id(n), 0))


def _kdf_common(repo: Repo, chk: Check, f: Func, c: ast.Call, length: int = 64) -> None:
    site = Site.of(f, c, f"kdf(..) at line offset {c.lineno - f.node.lineno}")
    okl = len(c.args) == 5 and unparse(c.args[2]) == "KDS_SERVICE_LABEL"
    chk.ob("O3", site, okl, "label = KDS service" if okl else f"kdf label is {unparse(c.args[2]) if len(c.args) > 2 else '?'}")
    okn = len(c.args) == 5 and repo.try_fold(c.args[4], f.mod) == (True, length)
    chk.ob("O3", site, okn, f"derives {length} bytes" if okn else f"kdf length is {unparse(c.args[4]) if len(c.args) > 4 else '?'}, MS-GKDI says {length * 8} bits")
    oka = len(c.args) == 5 and unparse(c.args[0]) == f.params[0 if f.name != "compute_l1_key" else 4]
    chk.ob("O3", site, oka, "hash algorithm passed through" if oka else f"kdf algorithm is {unparse(c.args[0])}")


def _ctx_args(c: ast.Call, f: t.Optional[Func] = None) -> t.Optional[t.List[str]]:
    ctx = c.args[3] if len(c.args) > 3 else None
    if f is not None and isinstance(ctx, ast.Name):
        # a context hoisted into a local: follow its single definition
        from sa.flow import ReachingDefs

        d = ReachingDefs(f).single_def(ctx.id, c)
        if d is not None and d.kind == "assign" and d.index is None and d.value is not None:
            ctx = d.value
    if isinstance(ctx, ast.Call) and unparse(ctx.func) == "compute_kdf_context" and len(ctx.args) == 4:
        return [unparse(a) for a in ctx.args]
    return None


def _assigned_to(call: ast.Call, scope: ast.AST) -> t.Optional[str]:
    for n in ast.walk(scope):
        if isinstance(n, ast.Assign) and n.value is call:
            return unparse(n.targets[0])
    return None


def l1_recipe(repo: Repo, chk: Check) -> None:
    """compute_l1_key on its path summary: L0 seed = KDF(root key, ctx(RKID, L0, -1, -1)); the function returns
    KDF(L0 seed, ctx(RKID, L0, 31, -1) || target SD); label KDS service, 512 bit, the caller's hash algorithm."""
    from sa.pathsum import Summary

    from .util import args_of, concat_parts

    f = repo.func("_gkdi.compute_l1_key")
    chk.analysed(f)
    p = f.params  # target_sd, root_key_id, l0, root_key, algorithm
    rets = Summary(f).returning()
    if not rets:
        raise AnalysisError("compute_l1_key: no returning path")
    for ps in rets:
        calls = [c for c in ps.calls("kdf") if ps.text(t.cast(ast.Call, c.tree).func) == "kdf"]
        site = Site.of(f, ps.exit_node)
        if len(calls) != 2:
            chk.ob("O3", site, False, f"compute_l1_key makes {len(calls)} kdf calls on a path, the recipe has two (L0 seed, L1 seed)")
            continue
        inner, outer = calls
        for c, what in ((inner, "L0 seed"), (outer, "L1(31) seed")):
            chk.count("kdf sites")
            a = args_of(repo, f, t.cast(ast.Call, c.tree))
            okc = ps.text(a.get("algorithm")) == p[4] and ps.text(a.get("label")) == "KDS_SERVICE_LABEL" and a.get("length") is not None and repo.try_fold(t.cast(ast.expr, a["length"]), f.mod) == (True, 64)
            chk.ob("O3", Site.of(f, c.node, f"{what}: kdf parameters"), okc, "hash algorithm passed through, label = KDS service, 512 bit" if okc else f"kdf(algorithm={ps.text(a.get('algorithm'))}, label={ps.text(a.get('label'))}, length={ps.text(a.get('length'))})")
        a0 = args_of(repo, f, t.cast(ast.Call, inner.tree))
        ctx0 = a0.get("context")
        c0 = [ps.text(x) for x in ctx0.args] if isinstance(ctx0, ast.Call) and ps.text(ctx0.func) == "compute_kdf_context" else None
        ok0 = c0 == [p[1], p[2], "-1", "-1"] and ps.text(a0.get("secret")) == p[3]
        chk.ob("O3", Site.of(f, inner.node, "L0 seed"), ok0, "L0 seed = KDF(root key, context(RKID, L0, -1, -1))" if ok0 else f"L0 seed is KDF({ps.text(a0.get('secret'))}, context{c0})")
        a1 = args_of(repo, f, t.cast(ast.Call, outer.tree))
        parts = concat_parts(a1.get("context"))
        c1 = [ps.text(x) for x in parts[0].args] if len(parts) == 2 and isinstance(parts[0], ast.Call) and ps.text(parts[0].func) == "compute_kdf_context" else None
        ok1 = c1 == [p[1], p[2], "31", "-1"] and len(parts) == 2 and ps.text(parts[1]) == p[0] and a1.get("secret") is not None and ps.key(a1["secret"]) == ps.key(inner.tree)
        chk.ob("O3", Site.of(f, outer.node, "L1(31) seed"), ok1, "L1(31) = KDF(L0 seed, context(RKID, L0, 31, -1) || SD)" if ok1 else f"L1 seed is KDF({ps.text(a1.get('secret'))[:60]}, {ps.text(a1.get('context'))[:80]})")
        okr = ps.key(ps.value) == ps.key(outer.tree)
        chk.ob("O3", site, okr, "returns the L1(31) seed" if okr else f"returns {ps.text(ps.value)[:60]}")


def consumer(repo: Repo, chk: Check) -> None:
    """The decrypt side takes its L2 key only from compute_l2_key for the blob's (L1, L2): no shortcut around the derivation."""
    from sa.flow import provenance

    f = repo.method("_gkdi.GroupKeyEnvelope", "get_kek")
    chk.analysed(f)
    rd = ReachingDefs(f)
    uses = [n for n in body_nodes(f.node) if isinstance(n, ast.Call) and unparse(n.func) in ("kdf", "compute_kek_from_public_key")]
    want_tail = ", key_id.l1, key_id.l2, self)"
    for c in uses:
        arg = c.args[1] if unparse(c.func) == "kdf" and len(c.args) > 1 else next((k.value for k in c.keywords if k.arg == "seed"), None)
        if arg is None:
            continue
        pv = provenance(rd, arg, c)
        ok = pv.startswith("compute_l2_key(") and pv.endswith(want_tail)
        chk.ob("O3", Site.of(f, c, f"{unparse(c.func)}: L2 key"), ok, "L2 key = compute_l2_key(hash, key_id.l1, key_id.l2, self)" if ok else f"the L2 key used here is '{pv[:90]}': on some path it does not come from compute_l2_key for the blob's position (an envelope's own l2_key may be absent or belong to another position)")


def kdf_context(repo: Repo, chk: Check) -> None:
    f = repo.func("_gkdi.compute_kdf_context")
    chk.analysed(f)
    p = f.params
    for wp in layout.writer_paths(repo, f):
        got = sigs_of(wp.segs)
        want = cat(UUID(p[0]), INT(F(p[1]), 4, signed=True), INT(F(p[2]), 4, signed=True), INT(F(p[3]), 4, signed=True))
        d = first_difference(got, want)
        chk.ob("O3", Site.of(f, construct="KDF context layout"), d is None, "RKID || L0 || L1 || L2, 4 byte little-endian signed" if d is None else d)


def kdf_wrapper(repo: Repo, chk: Check) -> None:
    from sa.pathsum import Summary

    from .util import ev_args, recv_of

    f = repo.func("_crypto.kdf")
    chk.analysed(f)
    summ = Summary(f, ["algorithm", "secret", "label", "context", "length"])
    if not summ.returning():
        raise AnalysisError("_crypto.kdf: no returning path")
    want = {"algorithm": "algorithm", "mode": "Mode.CounterMode", "length": "length", "label": "label", "context": "context", "rlen": "4", "llen": "4", "location": "CounterLocation.BeforeFixed", "fixed": "None"}
    for ps in summ.returning():
        ctor = [c for c in ps.calls("KBKDFHMAC")]
        if len(ctor) != 1:
            raise AnalysisError("_crypto.kdf: KBKDFHMAC construction changed")
        kws = {}
        for k, v in ev_args(repo, f, ctor[0], ["algorithm", "mode", "length", "rlen", "llen", "location", "label", "context", "fixed"]).items():
            okf, val = repo.try_fold(v, f.mod)
            kws[k] = repr(val) if okf and isinstance(val, int) and not isinstance(val, bool) else ps.text(v)
        for k, v in want.items():
            chk.ob("O3", Site.of(f, ctor[0].node, f"KBKDFHMAC({k}=...)"), kws.get(k) == v, f"{k}={v}" if kws.get(k) == v else f"SP800-108 parameter {k} is {kws.get(k)}, expected {v}")
        der = [c for c in ps.calls("derive") if ps.key(recv_of(t.cast(ast.Call, c.tree))) == ps.key(ctor[0].tree)]
        okd = len(der) == 1 and [ps.text(a) for a in ev_args(repo, f, der[0], ["key_material"]).values()] == ["secret"] and ps.key(ps.value) == ps.key(der[0].tree)
        chk.ob("O3", Site.of(f, der[0].node if der else None, None if der else "derive"), okd, "derives from the secret parameter and returns the result")


