"""C01 - protect then unprotect returns the plaintext for every input, config and time."""

from __future__ import annotations

import ast
import typing as t

from sa import twins
from sa.flow import ReachingDefs
from sa.load import AnalysisError, Func, Repo, body_nodes, unparse
from sa.report import Check, Site

from .c03 import argmap, calls, expect


def run(repo: Repo, chk: Check) -> None:
    chk.scope_decides = (
        "the encrypt/decrypt duality obligations that are necessary for the round trip and visible in the code shape: O1 every algorithm OID "
        "the encrypt side can emit has a decrypt branch, and per OID the two branches call dual primitives (aes_key_wrap/aes_key_unwrap, "
        "AESGCM.encrypt/decrypt) with key, nonce and associated data of equal provenance; O2 the algorithm and parameter values used for "
        "encryption are the very definitions stored in the emitted blob, the nonce in the GCM parameters is the one generated next to the CEK, "
        "the CEK wrapped is the CEK that encrypted; O3 the (L0, L1, L2) for which the key is derived are the ones stored in the envelope and "
        "copied role by role into the key identifier, and the cache keeps covering material (store predicate); O4 both blob layouts are dual; "
        "O5 the async API is the sync API modulo await. The KEK duality itself is C03's obligation set, key derivation C02's."
    )
    chk.scope_not = "the equality unprotect(protect(x)) = x as a fact about AES-GCM, AES-KW and HMAC outputs."
    chk.trusted = ["cryptography: aes_key_unwrap inverts aes_key_wrap; AESGCM.decrypt inverts AESGCM.encrypt for the same key, nonce and AAD"]
    algorithm_tables(repo, chk)
    parameter_identity(repo, chk)
    key_position(repo, chk)
    api_twins(repo, chk)
    # shared obligations named by the statement: layouts, KEK duality, derivation, cache store, time -> interval
    from .c02 import conventions, cover_guard
    from .c06 import layouts, shape_agreement
    from .c10 import get_key, store_key

    layouts(repo, chk)
    for q in ("_pkcs7.EncryptedContentInfo", "_pkcs7.ContentInfo", "_pkcs7.EnvelopedData"):
        shape_agreement(repo, chk, repo.cls(q))
    f = repo.func("_gkdi.compute_l2_key")
    cover_guard(repo, chk, f)
    conventions(repo, chk, f)
    get_key(repo, chk)
    store_key(repo, chk)
    from . import c03

    scratch_scope = (chk.scope_decides, chk.scope_not, list(chk.trusted))
    c03.run(repo, chk)
    chk.scope_decides, chk.scope_not, chk.trusted = scratch_scope


def algorithm_tables(repo: Repo, chk: Check) -> None:
    pairs = [
        ("_crypto.cek_encrypt", "_crypto.cek_decrypt", "keywrap.aes_key_wrap", "keywrap.aes_key_unwrap", "AlgorithmOID.AES256_WRAP"),
    ]
    for enc_q, dec_q, pe, pd, oid in pairs:
        fe, fd = repo.func(enc_q), repo.func(dec_q)
        chk.analysed(fe, fd)
        for f, prim in ((fe, pe), (fd, pd)):
            cs = calls(f, prim)
            ok = len(cs) == 1 and [unparse(a) for a in cs[0].args] == [f.params[2], f.params[3]]
            chk.ob("O1", Site.of(f, cs[0] if cs else None, None if cs else prim), ok, f"{prim}(kek, value)" if ok else f"{f.name} does not call {prim}(kek, value)")
            tests = [n for n in body_nodes(f.node) if isinstance(n, ast.If) and unparse(n.test) == f"{f.params[0]} == {oid}"]
            chk.ob("O1", Site.of(f, tests[0] if tests else None, None if tests else "OID branch"), len(tests) == 1, f"branch for {oid}")
            rets = [n for n in body_nodes(f.node) if isinstance(n, ast.Return)]
            chk.ob("O1", Site.of(f, rets[0] if rets else None, None if rets else "return"), bool(cs) and len(rets) == 1 and rets[0].value is cs[0], "returns the primitive's result")
    fe, fd = repo.func("_crypto.content_encrypt"), repo.func("_crypto.content_decrypt")
    chk.analysed(fe, fd)
    sigs = []
    for f, meth in ((fe, "encrypt"), (fd, "decrypt")):
        rd = ReachingDefs(f)
        cs = [n for n in body_nodes(f.node) if isinstance(n, ast.Call) and isinstance(n.func, ast.Attribute) and n.func.attr == meth]
        if len(cs) != 1:
            chk.ob("O1", Site.of(f, construct=f"cipher.{meth}"), False, f"{f.name} has {len(cs)} {meth} calls")
            continue
        c = cs[0]
        ciph = rd.single_def(unparse(c.func.value), c)  # type: ignore[attr-defined]
        iv = rd.single_def(unparse(c.args[0]), c) if isinstance(c.args[0], ast.Name) else None
        rdr = rd.single_def("reader", c)
        sig = (
            unparse(ciph.value).replace(f.params[2], "<cek>") if ciph is not None and ciph.value is not None else None,
            unparse(iv.value) if iv is not None and iv.value is not None else unparse(c.args[0]),
            unparse(rdr.value).replace(f.params[1], "<parameters>") if rdr is not None and rdr.value is not None else None,
            unparse(c.args[1]).replace(f.params[3], "<value>"),
            unparse(c.args[2]) if len(c.args) > 2 else None,
        )
        sigs.append(sig)
        tests = [n for n in body_nodes(f.node) if isinstance(n, ast.If) and unparse(n.test) == f"{f.params[0]} == AlgorithmOID.AES256_GCM"]
        chk.ob("O1", Site.of(f, tests[0] if tests else None, None if tests else "OID branch"), len(tests) == 1, "branch for AES256-GCM")
        rets = [n for n in body_nodes(f.node) if isinstance(n, ast.Return)]
        chk.ob("O1", Site.of(f, rets[0] if rets else None, None if rets else "return"), len(rets) == 1 and rets[0].value is c, "returns the AEAD result")
    ok = len(sigs) == 2 and sigs[0] == sigs[1] and sigs[0][0] == "AESGCM(<cek>)" and sigs[0][4] == "None"
    chk.ob("O1", Site.of(fd, construct="AES-GCM key / nonce / AAD provenance"), ok, f"both sides: {sigs[0] if sigs else ''}" if ok else f"encrypt and decrypt feed AES-GCM differently: {sigs}")
    # every OID the encrypt side emits has a decrypt branch
    eb = repo.func("_client._encrypt_blob")
    emitted = {unparse(n.value) for n in body_nodes(eb.node) if isinstance(n, ast.Assign) and unparse(n.targets[0]) in ("enc_cek_algorithm", "enc_content_algorithm")}
    have = set()
    for q in ("_crypto.cek_decrypt", "_crypto.content_decrypt"):
        f = repo.func(q)
        have |= {unparse(n.test.comparators[0]) for n in body_nodes(f.node) if isinstance(n, ast.If) and isinstance(n.test, ast.Compare)}
    chk.ob("O1", Site.of(eb, construct="emitted algorithm OIDs have decrypt branches"), emitted <= have and len(emitted) == 2, f"emitted {sorted(emitted)}" if emitted <= have else f"_encrypt_blob emits {sorted(emitted - have)} which no decrypt branch handles")


def parameter_identity(repo: Repo, chk: Check) -> None:
    f = repo.func("_client._encrypt_blob")
    chk.analysed(f)
    rd = ReachingDefs(f)
    ce, ke, gen = calls(f, "content_encrypt"), calls(f, "cek_encrypt"), calls(f, "cek_generate")
    bc = calls(f, "DPAPINGBlob")
    if not (len(ce) == len(ke) == len(gen) == len(bc) == 1):
        raise AnalysisError("_encrypt_blob: call sites changed")
    kws = {k.arg: k.value for k in bc[0].keywords if k.arg}

    def same(a: ast.expr, at_a: ast.AST, b: t.Optional[ast.expr], at_b: ast.AST) -> bool:
        if b is None or not isinstance(a, ast.Name) or not isinstance(b, ast.Name) or a.id != b.id:
            return False
        return {id(d) for d in rd.reaching(a.id, at_a)} == {id(d) for d in rd.reaching(b.id, at_b)} and len(rd.reaching(a.id, at_a)) == 1

    for what, used, stored in (
        ("content algorithm", ce[0].args[0], kws.get("enc_content_algorithm")),
        ("content parameters", ce[0].args[1], kws.get("enc_content_parameters")),
        ("CEK algorithm", ke[0].args[0], kws.get("enc_cek_algorithm")),
        ("CEK parameters", ke[0].args[1], kws.get("enc_cek_parameters")),
    ):
        ok = same(used, ce[0] if "content" in what else ke[0], stored, bc[0])
        chk.ob("O2", Site.of(f, bc[0], f"DPAPINGBlob stores the {what} used"), ok, f"the {what} stored in the blob is the definition used to encrypt" if ok else f"the {what} used for encryption ({unparse(used)}) is not what the blob stores ({unparse(stored) if stored is not None else 'missing'})")
    # results stored
    for what, call, field in (("ciphertext", ce[0], "enc_content"), ("wrapped CEK", ke[0], "enc_cek")):
        v = kws.get(field)
        d = rd.single_def(v.id, bc[0]) if isinstance(v, ast.Name) else None
        ok = d is not None and d.value is call
        chk.ob("O2", Site.of(f, bc[0], f"DPAPINGBlob stores the {what}"), ok, f"{field} = result of the encryption" if ok else f"{field} is not the result of the corresponding encryption call")
    # cek_generate(alg) with the same algorithm as cek_encrypt
    ok = same(gen[0].args[0], gen[0], ke[0].args[0], ke[0])
    chk.ob("O2", Site.of(f, gen[0]), ok, "CEK generated for the algorithm that wraps it")
    # key, nonce: from cek_generate's pair
    cek = ce[0].args[2]
    d = rd.single_def(cek.id, ce[0]) if isinstance(cek, ast.Name) else None
    ok = d is not None and d.value is gen[0] and d.index == 0
    chk.ob("O2", Site.of(f, ce[0]), ok, "content encrypted with the generated CEK")
    ok = isinstance(ke[0].args[3], ast.Name) and isinstance(cek, ast.Name) and ke[0].args[3].id == cek.id and rd.single_def(cek.id, ke[0]) is d
    chk.ob("O2", Site.of(f, ke[0]), ok, "the CEK that is wrapped is the CEK that encrypted")
    wr = [n for n in body_nodes(f.node) if isinstance(n, ast.Call) and isinstance(n.func, ast.Attribute) and n.func.attr == "write_octet_string"]
    ivd = rd.single_def(unparse(wr[0].args[0]), wr[0]) if len(wr) == 1 and isinstance(wr[0].args[0], ast.Name) else None
    ok = ivd is not None and ivd.value is gen[0] and ivd.index == 1
    chk.ob("O2", Site.of(f, wr[0] if wr else None, None if wr else "nonce"), ok, "the nonce written into the GCM parameters is the one generated with the CEK")
    # kek / key identifier from key.new_kek()
    nk = calls(f, "key.new_kek")
    kd = rd.single_def("kek", ke[0])
    ok = len(nk) == 1 and kd is not None and kd.value is nk[0] and kd.index == 0
    chk.ob("O2", Site.of(f, ke[0]), ok, "wrapped with the KEK of new_kek()")
    ki = kws.get("key_identifier")
    d = rd.single_def(ki.id, bc[0]) if isinstance(ki, ast.Name) else None
    ok = len(nk) == 1 and d is not None and d.value is nk[0] and d.index == 1
    chk.ob("O2", Site.of(f, bc[0], "DPAPINGBlob stores new_kek()'s key identifier"), ok, "the identifier stored is the one that describes that KEK")
    pdv = kws.get("protection_descriptor")
    chk.ob("O2", Site.of(f, bc[0], "DPAPINGBlob stores the protection descriptor"), pdv is not None and unparse(pdv) == f.params[2], "the descriptor the SD was built from")
    # protect API: SD for the key request and descriptor in the blob come from the same parsed descriptor
    for q in ("_client.ncrypt_protect_secret", "_client.async_ncrypt_protect_secret"):
        g = repo.func(q)
        rdg = ReachingDefs(g)
        eb = calls(g, "_encrypt_blob")
        ok = len(eb) == 1 and [unparse(a) for a in eb[0].args] == ["data", "rk", "descriptor"]
        chk.ob("O2", Site.of(g, eb[0] if eb else None, None if eb else "_encrypt_blob"), ok, "_encrypt_blob(data, rk, descriptor)")
        if eb:
            d1 = rdg.single_def("descriptor", eb[0])
            d2 = rdg.single_def("sd", eb[0])
            ok = d1 is not None and unparse(d1.value) == f"ProtectionDescriptor.parse({g.params[1]})" and d2 is not None and unparse(d2.value) == "descriptor.get_target_sd()"
            chk.ob("O2", Site.of(g, eb[0]), ok, "key requested for the SD of the descriptor that is stored in the blob")
        rets = [n for n in body_nodes(g.node) if isinstance(n, ast.Return)]
        chk.ob("O2", Site.of(g, rets[0] if rets else None, None if rets else "return"), len(rets) == 1 and bool(eb) and rets[0].value is eb[0], "returns the emitted blob")


def key_position(repo: Repo, chk: Check) -> None:
    nk = repo.method("_gkdi.GroupKeyEnvelope", "new_kek")
    chk.analysed(nk)
    ki = calls(nk, "KeyIdentifier")
    if len(ki) != 1:
        raise AnalysisError("new_kek: KeyIdentifier construction changed")
    kws = {k.arg: unparse(k.value) for k in ki[0].keywords if k.arg}
    want = {"flags": "self.flags", "l0": "self.l0", "l1": "self.l1", "l2": "self.l2", "root_key_identifier": "self.root_key_identifier", "domain_name": "self.domain_name", "forest_name": "self.forest_name", "version": "1"}
    expect(chk, "O3", nk, ki[0], kws, want, "key identifier copies the envelope's position role by role")
    rets = [n for n in body_nodes(nk.node) if isinstance(n, ast.Return)]
    ok = len(rets) == 1 and unparse(rets[0].value) == "(kek, key_identifier)"
    chk.ob("O3", Site.of(nk, rets[0] if rets else None, None if rets else "return"), ok, "returns (kek, identifier)")
    # the envelope built from the cache for 'now' (shared with C09-O4)
    from .c09 import run as c09_run

    sub = Check(chk.pid, chk.tier)
    c09_run(repo, sub)
    for o in sub.obligations:
        if "-O4" in o.rule or "-O2" in o.rule or "-O1" in o.rule or "-O3" in o.rule:
            chk.obligations.append(type(o)(o.rule.replace("-O4", "-O3").replace("-O2", "-O3").replace("-O1", "-O3"), o.site, o.ok, o.detail))


def api_twins(repo: Repo, chk: Check) -> None:
    names_s = {"lookup_dc": "LOOKUP", "_sync_get_key": "GETKEY"}
    names_a = {"async_lookup_dc": "LOOKUP", "_async_get_key": "GETKEY"}
    for a, b in (("_client.ncrypt_unprotect_secret", "_client.async_ncrypt_unprotect_secret"), ("_client.ncrypt_protect_secret", "_client.async_ncrypt_protect_secret")):
        fa, fb = repo.func(a), repo.func(b)
        chk.analysed(fa, fb)
        d = twins.diff(repo, fa, fb, names_s, names_a)
        chk.ob("O5", Site.of(fb, construct=f"{fa.name} == {fb.name} modulo await"), d is None, "twins agree" if d is None else f"sync and async differ: '{d[0][:140]}' vs '{d[1][:140]}'")
