"""C01 - protect then unprotect returns the plaintext for every input, config and time."""

from __future__ import annotations

import ast
import typing as t

from sa import twins
from sa.flow import ReachingDefs
from sa.load import AnalysisError, Func, Repo, body_nodes, unparse
from sa.report import Check, Site

from sa.pathsum import PathSum, Summary

from .c03 import argmap, calls, expect
from .util import args_of, eq_branches, ev_args


def run(repo: Repo, chk: Check) -> None:
    chk.scope_decides = (
        "the encrypt/decrypt duality obligations that are necessary for the round trip and visible in the code shape: O1 every algorithm OID "
        "the encrypt side can emit has a decrypt branch, and per OID the two branches call dual primitives (aes_key_wrap/aes_key_unwrap, "
        "AESGCM.encrypt/decrypt) with key, nonce and associated data of equal provenance; O2 the algorithm and parameter values used for "
        "encryption are the very definitions stored in the emitted blob, the nonce in the GCM parameters is the one generated next to the CEK, "
        "the CEK wrapped is the CEK that encrypted; O3 the (L0, L1, L2) for which the key is derived are the ones stored in the envelope and "
        "copied role by role into the key identifier, and the cache keeps covering material (store predicate); O4 both blob layouts are dual; "
        "O5 the async API is the sync API modulo await. The KEK duality itself is C03's obligation set, key derivation C02's; the SID grammar "
        "and value ranges (every shape with 1..15 sub authorities is accepted and encodable) are C08's O1/O2, run here as well."
    )
    chk.scope_not = "the equality unprotect(protect(x)) = x as a fact about AES-GCM, AES-KW and HMAC outputs."
    chk.trusted = ["cryptography: aes_key_unwrap inverts aes_key_wrap; AESGCM.decrypt inverts AESGCM.encrypt for the same key, nonce and AAD"]
    algorithm_tables(repo, chk)
    parameter_identity(repo, chk)
    key_position(repo, chk)
    api_twins(repo, chk)
    # shared obligations named by the statement: layouts, KEK duality, derivation, cache store, time -> interval
    from .chain import chain_semantics
    from .c06 import layouts, shape_agreement
    from .c10 import get_key, store_key

    layouts(repo, chk)
    for q in ("_pkcs7.EncryptedContentInfo", "_pkcs7.ContentInfo", "_pkcs7.EnvelopedData"):
        shape_agreement(repo, chk, repo.cls(q))
    f = repo.func("_gkdi.compute_l2_key")
    chain_semantics(repo, chk, f, "O3")
    get_key(repo, chk)
    store_key(repo, chk)
    # "for any plaintext (..., >= 64 KiB)": the DER length writer has no capacity limit (C07-O2)
    from .c07 import header_writer

    header_writer(repo, chk)
    # "any well-formed SID protection descriptor (1..15 sub-authorities, 0 and 2^32-1 values)": the SID grammar accepts
    # exactly those shapes and every accepted value fits its field (C08-O1/O2)
    from sa.intervals import World
    from . import c08

    f_sid = repo.func("_security_descriptor.sid_to_bytes")
    chk.analysed(f_sid)
    w_sid = World(repo)
    c08.ranges(repo, chk, f_sid, w_sid, c08.grammar(repo, chk, f_sid))
    from . import c03

    scratch_scope = (chk.scope_decides, chk.scope_not, list(chk.trusted))
    c03.run(repo, chk)
    chk.scope_decides, chk.scope_not, chk.trusted = scratch_scope


def _oid_branches(f: Func, summ: Summary) -> t.Dict[str, t.List[PathSum]]:
    """Returning paths of an algorithm-dispatch function, keyed by the OID its first parameter is compared equal to."""
    return eq_branches(summ, summ.rename.get(f.params[0], f.params[0]))


def algorithm_tables(repo: Repo, chk: Check) -> None:
    OID = "AlgorithmOID.AES256_WRAP"
    for enc_q, dec_q, pe, pd in [("_crypto.cek_encrypt", "_crypto.cek_decrypt", "aes_key_wrap", "aes_key_unwrap")]:
        fe, fd = repo.func(enc_q), repo.func(dec_q)
        chk.analysed(fe, fd)
        for f, prim in ((fe, pe), (fd, pd)):
            summ = Summary(f, ["algorithm", "parameters", "kek", "value"])
            br = _oid_branches(f, summ)
            paths = br.get(OID, [])
            chk.ob("O1", Site.of(f, construct=f"{f.name}: branch for {OID}"), len(paths) >= 1 and set(br) == {OID}, f"every returning path has tested algorithm == {OID}" if set(br) == {OID} else f"returning paths are guarded by {sorted(br)}")
            for ps in paths:
                cs = ps.calls(prim)
                ok = len(cs) == 1 and [ps.text(a) for a in list(ev_args(repo, f, cs[0]).values())] == ["kek", "value"]
                chk.ob("O1", Site.of(f, cs[0].node if cs else None, None if cs else prim), ok, f"{prim}(kek, value)" if ok else f"{f.name} does not call {prim}(kek, value) on the {OID} path")
                okr = bool(cs) and ps.key(ps.value) == ps.key(cs[0].tree)
                chk.ob("O1", Site.of(f, ps.exit_node, None if ps.exit_node is not None else "return"), okr, "returns the primitive's result")
    GCM = "AlgorithmOID.AES256_GCM"
    fe, fd = repo.func("_crypto.content_encrypt"), repo.func("_crypto.content_decrypt")
    chk.analysed(fe, fd)
    sigs = []
    for f, meth in ((fe, "encrypt"), (fd, "decrypt")):
        summ = Summary(f, ["algorithm", "parameters", "cek", "value"])
        br = _oid_branches(f, summ)
        chk.ob("O1", Site.of(f, construct=f"{f.name}: branch for {GCM}"), set(br) == {GCM}, "branch for AES256-GCM" if set(br) == {GCM} else f"returning paths are guarded by {sorted(br)}")
        for ps in br.get(GCM, []):
            cs = ps.calls(meth)
            if len(cs) != 1:
                chk.ob("O1", Site.of(f, construct=f"cipher.{meth}"), False, f"{f.name} has {len(cs)} {meth} calls on the {GCM} path")
                continue
            c = t.cast(ast.Call, cs[0].tree)
            ca = ev_args(repo, f, cs[0])
            sig = (ps.text(t.cast(ast.Attribute, c.func).value), tuple(ps.text(ca.get(k)) for k in ("nonce", "data", "associated_data")), ())
            sigs.append(sig)
            chk.ob("O1", Site.of(f, ps.exit_node, None if ps.exit_node is not None else "return"), ps.key(ps.value) == ps.key(c), "returns the AEAD result")
    want = ("AESGCM(cek)", ("ASN1Reader(parameters).read_sequence().read_octet_string()", "value", "None"), ())
    ok = len(sigs) >= 2 and all(s == want for s in sigs)
    chk.ob("O1", Site.of(fd, construct="AES-GCM key / nonce / AAD provenance"), ok, f"both sides: {want}" if ok else f"encrypt and decrypt feed AES-GCM differently from AESGCM(cek).op(nonce of the parameters, value, None): {sigs}")
    # every OID the encrypt side emits has a decrypt branch
    eb = repo.func("_client._encrypt_blob")
    emitted = set()
    for ps in Summary(eb).returning():
        for c in ps.calls("DPAPINGBlob"):
            kws = args_of(repo, eb, t.cast(ast.Call, c.tree))
            emitted |= {ps.text(kws.get("enc_cek_algorithm")), ps.text(kws.get("enc_content_algorithm"))}
    have = set()
    for q in ("_crypto.cek_decrypt", "_crypto.content_decrypt"):
        f = repo.func(q)
        have |= set(_oid_branches(f, Summary(f))) - {"<no single test>"}
    chk.ob("O1", Site.of(eb, construct="emitted algorithm OIDs have decrypt branches"), emitted <= have and len(emitted) == 2, f"emitted {sorted(emitted)}" if emitted <= have else f"_encrypt_blob emits {sorted(emitted - have)} which no decrypt branch handles")


def parameter_identity(repo: Repo, chk: Check) -> None:
    f = repo.func("_client._encrypt_blob")
    chk.analysed(f)
    summ = Summary(f, ["blob", "key", "protection_descriptor"])
    rets = summ.returning()
    if not rets:
        raise AnalysisError("_encrypt_blob: no returning path")
    for ps in rets:
        ce, ke, gen, bc, nk = ps.calls("content_encrypt"), ps.calls("cek_encrypt"), ps.calls("cek_generate"), ps.calls("DPAPINGBlob"), ps.calls("new_kek")
        if not (len(ce) == len(ke) == len(gen) == len(bc) == 1):
            raise AnalysisError("_encrypt_blob: call sites changed")
        cet, ket, gent, bct = (t.cast(ast.Call, x[0].tree) for x in (ce, ke, gen, bc))
        kws = args_of(repo, f, bct)
        cea, kea = args_of(repo, f, cet), args_of(repo, f, ket)
        K = ps.key
        for what, used, stored in (
            ("content algorithm", cea.get("algorithm"), kws.get("enc_content_algorithm")),
            ("content parameters", cea.get("parameters"), kws.get("enc_content_parameters")),
            ("CEK algorithm", kea.get("algorithm"), kws.get("enc_cek_algorithm")),
            ("CEK parameters", kea.get("parameters"), kws.get("enc_cek_parameters")),
        ):
            ok = used is not None and stored is not None and K(used) == K(stored)
            chk.ob("O2", Site.of(f, bc[0].node, f"DPAPINGBlob stores the {what} used"), ok, f"the {what} stored in the blob is the value used to encrypt" if ok else f"the {what} used for encryption ({ps.text(used)}) is not what the blob stores ({ps.text(stored) if stored is not None else 'missing'})")
        for what, call, field in (("ciphertext", cet, "enc_content"), ("wrapped CEK", ket, "enc_cek")):
            ok = kws.get(field) is not None and K(kws[field]) == K(call)
            chk.ob("O2", Site.of(f, bc[0].node, f"DPAPINGBlob stores the {what}"), ok, f"{field} = result of the encryption" if ok else f"{field} is not the result of the corresponding encryption call")
        ga = args_of(repo, f, gent)
        ok = ga.get("algorithm") is not None and K(ga["algorithm"]) == K(kea.get("algorithm"))
        chk.ob("O2", Site.of(f, gen[0].node), ok, "CEK generated for the algorithm that wraps it")
        cek_key, iv_key = f"{K(gent)}[0]", f"{K(gent)}[1]"
        ok = K(cea.get("cek")) == cek_key
        chk.ob("O2", Site.of(f, ce[0].node), ok, "content encrypted with the generated CEK")
        ok = K(kea.get("value")) == cek_key
        chk.ob("O2", Site.of(f, ke[0].node), ok, "the CEK that is wrapped is the CEK that encrypted")
        wr = ps.calls("write_octet_string")
        ok = len(wr) == 1 and [K(a) for a in t.cast(ast.Call, wr[0].tree).args][:1] == [iv_key]
        chk.ob("O2", Site.of(f, wr[0].node if wr else None, None if wr else "nonce"), ok, "the nonce written into the GCM parameters is the one generated with the CEK")
        okn = len(nk) == 1 and ps.text(t.cast(ast.Attribute, t.cast(ast.Call, nk[0].tree).func).value) == "key"
        ok = okn and K(kea.get("kek")) == f"{K(nk[0].tree)}[0]"
        chk.ob("O2", Site.of(f, ke[0].node), ok, "wrapped with the KEK of key.new_kek()")
        ok = okn and K(kws.get("key_identifier")) == f"{K(nk[0].tree)}[1]"
        chk.ob("O2", Site.of(f, bc[0].node, "DPAPINGBlob stores new_kek()'s key identifier"), ok, "the identifier stored is the one that describes that KEK")
        pdv = kws.get("protection_descriptor")
        chk.ob("O2", Site.of(f, bc[0].node, "DPAPINGBlob stores the protection descriptor"), pdv is not None and ps.text(pdv) == "protection_descriptor", "the descriptor the SD was built from")
        ok = ps.value is not None and K(ps.value) == f"{K(bct)}.pack()" or (isinstance(ps.value, ast.Call) and isinstance(ps.value.func, ast.Attribute) and ps.value.func.attr == "pack" and K(ps.value.func.value) == K(bct))
        chk.ob("O2", Site.of(f, ps.exit_node, None if ps.exit_node is not None else "return"), bool(ok), "returns the packed blob")
    # protect API: SD for the key request and descriptor in the blob come from the same parsed descriptor
    for q in ("_client.ncrypt_protect_secret", "_client.async_ncrypt_protect_secret"):
        g = repo.func(q)
        sg = Summary(g)  # public API: the parameter names are part of the interface
        n = 0
        for ps in sg.returning():
            eb = ps.calls("_encrypt_blob")
            if len(eb) != 1:
                chk.ob("O2", Site.of(g, ps.exit_node, None if ps.exit_node is not None else "return"), False, "a returning path does not go through _encrypt_blob exactly once")
                continue
            n += 1
            ea = args_of(repo, g, t.cast(ast.Call, eb[0].tree))
            desc = "ProtectionDescriptor.parse(protection_descriptor)"
            ok = ps.text(ea.get("blob")) == "data" and ps.text(ea.get("protection_descriptor")) == desc
            chk.ob("O2", Site.of(g, eb[0].node), ok, "_encrypt_blob(data, <key>, descriptor parsed from the argument)" if ok else f"_encrypt_blob is given ({ps.text(ea.get('blob'))}, ..., {ps.text(ea.get('protection_descriptor'))})")
            sds = [c for c in ps.calls("get_target_sd")]
            ok = len(sds) >= 1 and all(ps.key(t.cast(ast.Attribute, t.cast(ast.Call, c.tree).func).value) == ps.key(ea.get("protection_descriptor")) for c in sds)
            chk.ob("O2", Site.of(g, eb[0].node, "target SD of the stored descriptor"), ok, "key requested for the SD of the descriptor that is stored in the blob")
            chk.ob("O2", Site.of(g, ps.exit_node, None if ps.exit_node is not None else "return"), ps.key(ps.value) == ps.key(eb[0].tree), "returns the emitted blob")
        if n == 0:
            raise AnalysisError(f"{q}: no path through _encrypt_blob")


def key_position(repo: Repo, chk: Check) -> None:
    nk = repo.method("_gkdi.GroupKeyEnvelope", "new_kek")
    chk.analysed(nk)
    want = {"flags": "self.flags", "l0": "self.l0", "l1": "self.l1", "l2": "self.l2", "root_key_identifier": "self.root_key_identifier", "domain_name": "self.domain_name", "forest_name": "self.forest_name", "version": "1"}
    summ = Summary(nk, ["self"])
    if not summ.returning():
        raise AnalysisError("new_kek: no returning path")
    for ps in summ.returning():
        ki = [c for c in ps.calls("KeyIdentifier") if ps.text(t.cast(ast.Call, c.tree).func) == "KeyIdentifier"]
        if len(ki) != 1:
            chk.ob("O3", Site.of(nk, ps.exit_node, "KeyIdentifier"), False, "a returning path of new_kek does not build exactly one KeyIdentifier")
            continue
        kws = {k: ps.text(v) for k, v in ev_args(repo, nk, ki[0]).items()}
        expect(chk, "O3", nk, t.cast(ast.Call, ki[0].node), kws, want, "key identifier copies the envelope's position role by role")
        v = ps.value
        ok = isinstance(v, ast.Tuple) and len(v.elts) == 2 and ps.key(v.elts[1]) == ps.key(ki[0].tree)
        chk.ob("O3", Site.of(nk, ps.exit_node, None if ps.exit_node is not None else "return"), ok, "returns (kek, identifier)")
    # the envelope built from the cache for 'now' (shared with C09-O4)
    from .c09 import run as c09_run

    sub = Check(chk.pid, chk.tier)
    c09_run(repo, sub)
    for o in sub.obligations:
        if "-O4" in o.rule or "-O2" in o.rule or "-O1" in o.rule or "-O3" in o.rule:
            chk.obligations.append(type(o)(o.rule.replace("-O4", "-O3").replace("-O2", "-O3").replace("-O1", "-O3"), o.site, o.ok, o.detail))


def api_twins(repo: Repo, chk: Check) -> None:
    names_s = {"lookup_dc": "LOOKUP", "_sync_get_key": "GETKEY"}
    names_a = {"async_lookup_dc": "LOOKUP", "_async_get_key": "GETKEY"}
    for a, b in (("_client.ncrypt_unprotect_secret", "_client.async_ncrypt_unprotect_secret"), ("_client.ncrypt_protect_secret", "_client.async_ncrypt_protect_secret")):
        fa, fb = repo.func(a), repo.func(b)
        chk.analysed(fa, fb)
        d = twins.diff(repo, fa, fb, names_s, names_a)
        chk.ob("O5", Site.of(fb, construct=f"{fa.name} == {fb.name} modulo await"), d is None, "twins agree" if d is None else f"sync and async differ: '{d[0][:140]}' vs '{d[1][:140]}'")
