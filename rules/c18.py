"""C18 - endpoint-mapper replies: right port if well-formed, bounded work for any reply."""

from __future__ import annotations

import ast
import typing as t

from sa.cfg import build
from sa.load import AnalysisError, Repo, body_nodes, unparse
from sa.report import Check, Site
from sa.symeval import Unsupported

from . import codecs
from .c12 import decoders_bounded, open_enums, registries, towers_reference


def run(repo: Repo, chk: Check) -> None:
    chk.scope_decides = (
        "O1 every loop of the ept_map decoders has a bounded-work certificate (tower count related to the reply size by a dominating "
        "guard, floor count <= 65535 with >= 5 bytes consumed per floor); O2 tower alignment = NDR64 reference and writer table = reader "
        "table for EptMap, EptMapResult, Floor and the typed floors; O3 the status test guards every use of the towers, the first TCP "
        "floor in iteration order is the one returned, falling through raises; O4 TCP floor = protocol 0x07 with a 2 byte big-endian port."
    )
    chk.scope_not = "time and memory as measured quantities; behaviour of the transport."
    chk.trusted = ["Python slicing/int.from_bytes semantics", "NDR64 alignment rule and tower layout transcribed from C706 appendix L / MS-RPCE 2.2.1.2.5"]
    decoders_bounded(repo, chk, "O1", ["_epm"])
    chk.require_min("decoder loops", 3)
    try:
        for q in ("_epm.Floor", "_epm.EptMap", "_epm.EptMapResult"):
            codecs.plain(repo, chk, "O2", q)
        for q in ("_epm.TCPFloor", "_epm.IPFloor", "_epm.RPCConnectionOrientedFloor", "_epm.UUIDFloor"):
            codecs.delegate(repo, chk, "O4", q, "_epm.Floor", ("lhs", "rhs"), ("protocol",))
        towers_reference(repo, chk, "O2")
    except Unsupported as e:
        raise AnalysisError(f"codec left the idiom table: {e}")
    open_enums(repo, chk, "O4")
    tcp_floor(repo, chk, "O4")
    selection(repo, chk, "O3")


def tcp_floor(repo: Repo, chk: Check, rule: str) -> None:
    from sa import layout

    cls = repo.cls("_epm.TCPFloor")
    fw = cls.methods["pack"]
    chk.analysed(fw)
    for p in layout.writer_paths(repo, fw):
        obj = p.segs[0].a.get("obj") if p.segs and p.segs[0].kind == "nested" else None
        rhs = obj.fields.get("rhs") if obj is not None else None
        segs = getattr(rhs, "segs", [])
        ok = len(segs) == 1 and segs[0].kind == "int" and segs[0].width == 2 and segs[0].order == "big" and repr(segs[0].value) == "self.port"
        chk.ob(rule, Site.of(fw, construct="TCPFloor.pack: port encoding"), ok, "port is the 2 byte big-endian right hand side" if ok else f"TCP port is written as {[s.describe() for s in segs]}, C706 appendix I says 2 bytes big-endian")
    fld = cls.field("protocol")
    okf, v = repo.try_fold(fld.default, cls.mod) if fld is not None and fld.default is not None else (False, None)
    val = getattr(v, "value", v)
    chk.ob(rule, Site(cls.mod.rel, cls.qual, cls.node.lineno, "TCPFloor.protocol"), okf and val == 0x07, f"protocol id {val}")
    reg = repo.registry("register_floor")
    chk.ob(rule, Site(cls.mod.rel, cls.qual, cls.node.lineno, "TCPFloor registered"), any(c is cls for c in reg.values()), "TCPFloor is registered with register_floor")
    # the client recognises the TCP floor with isinstance(floor, TCPFloor): no other floor type may satisfy that test
    subs = repo.subclasses(cls)
    chk.ob(rule, Site(cls.mod.rel, cls.qual, cls.node.lineno, "no subclass of TCPFloor"), not subs, "only protocol 0x07 floors are instances of TCPFloor" if not subs else f"{', '.join(c.name for c in subs)} derive(s) from TCPFloor: isinstance(floor, TCPFloor) in _process_ept_map_result accepts such a floor (another protocol) as the TCP port")
    protos = {}
    for c in reg.values():
        fld = c.field("protocol")
        okf, v = repo.try_fold(fld.default, c.mod) if fld is not None and fld.default is not None else (False, None)
        protos.setdefault(getattr(v, "value", v), []).append(c.name)
    dup = {k: v for k, v in protos.items() if len(v) > 1}
    chk.ob(rule, Site(cls.mod.rel, cls.qual, cls.node.lineno, "floor protocol ids are distinct"), not dup, "one registered class per protocol id" if not dup else f"protocol ids registered twice: {dup}")


def selection(repo: Repo, chk: Check, rule: str) -> None:
    f = repo.func("_client._process_ept_map_result")
    chk.analysed(f)
    g = build(f.node)
    # ---- the decoded value is EptMapResult.unpack(response.stub_data)
    dec = [n for n in body_nodes(f.node) if isinstance(n, ast.Call) and unparse(n.func).endswith("EptMapResult.unpack")]
    ok = bool(dec) and unparse(dec[0].args[0]) == f"{f.params[0]}.stub_data"
    chk.ob(rule, Site.of(f, dec[0] if dec else None, None if dec else "decode call"), ok, "reply stub decoded with EptMapResult.unpack" if ok else "the reply stub is not decoded with EptMapResult.unpack(response.stub_data)")
    if not dec:
        return
    res_var = None
    for n in body_nodes(f.node):
        if isinstance(n, ast.Assign) and n.value is dec[0] and isinstance(n.targets[0], ast.Name):
            res_var = n.targets[0].id
    if res_var is None:
        raise AnalysisError("_process_ept_map_result: decoded reply is not bound to a name")
    # ---- selecting statements: `return X.port` / `v = X.port` with X narrowed by isinstance(X, TCPFloor)
    selects: t.List[t.Tuple[ast.stmt, ast.expr]] = []
    for n in body_nodes(f.node):
        val = None
        if isinstance(n, ast.Return) and n.value is not None:
            val = n.value
        elif isinstance(n, ast.Assign):
            val = n.value
        if val is not None and isinstance(val, ast.Attribute) and val.attr == "port":
            selects.append((t.cast(ast.stmt, n), val))
    # the floor object itself captured in the scan (`hit = floor; break ... return hit.port`): the capture is the selection
    loop_vars = {l.target.id for l in body_nodes(f.node) if isinstance(l, ast.For) and isinstance(l.target, ast.Name)}
    obj_vars: t.Set[str] = set()
    for n in body_nodes(f.node):
        if isinstance(n, ast.Assign) and len(n.targets) == 1 and isinstance(n.targets[0], ast.Name) and isinstance(n.value, ast.Name) and n.value.id in loop_vars:
            x = n.targets[0].id
            if any(isinstance(u, ast.Attribute) and u.attr == "port" and isinstance(u.value, ast.Name) and u.value.id == x for u in body_nodes(f.node)):
                obj_vars.add(x)
                selects = [(st_, v_) for st_, v_ in selects if not (isinstance(v_.value, ast.Name) and v_.value.id == x)]
                selects.append((t.cast(ast.stmt, n), ast.copy_location(ast.Attribute(value=n.value, attr="port", ctx=ast.Load()), n)))
    site0 = Site.of(f, construct="selection of the TCP port")
    if not selects:
        chk.ob(rule, site0, False, "no statement selects <floor>.port")
        return
    chk.count("port selections", len(selects))
    loops = [n for n in body_nodes(f.node) if isinstance(n, (ast.For, ast.While))]
    for st, val in selects:
        nid = g.first_of_stmt.get(st)
        site = Site.of(f, st)
        if nid is None:
            continue
        guards = g.guards_of(nid)
        # (a) guarded by isinstance(<floor>, TCPFloor) on the same object
        iso = [c for c, pol in guards if pol and isinstance(c, ast.Call) and unparse(c.func) == "isinstance" and unparse(c.args[0]) == unparse(val.value) and unparse(c.args[1]).endswith("TCPFloor")]
        chk.ob(rule, site, bool(iso), "port taken from an object tested to be a TCPFloor" if iso else f"{unparse(val)} is used without a dominating isinstance({unparse(val.value)}, TCPFloor) test")
        # (b) status test guards it
        from .util import prov_text as _pt

        def _is_status(e: ast.expr) -> bool:
            return f"{res_var}.status" in (unparse(e), _pt(f, e, st))

        stat = [c for c, pol in guards if isinstance(c, ast.Compare) and len(c.ops) == 1 and _is_status(c.left) and ((isinstance(c.ops[0], ast.NotEq) and not pol) or (isinstance(c.ops[0], ast.Eq) and pol)) and unparse(c.comparators[0]) == "0"]
        # `if result.status: raise` / `if (status := result.status): raise`: the integer status is falsy only when it is 0
        stat += [c for c, pol in guards if not pol and not isinstance(c, ast.Compare) and _is_status(c)]
        chk.ob(rule, site, bool(stat), "only reached when status == 0" if stat else "the port is selected on a path where the ept_map status was not checked to be 0")
        # (c) first match wins: the selecting node is not on a cycle of the CFG
        on_cycle = _reaches(g, nid, nid)
        chk.ob(rule, site, not on_cycle, "first TCP floor in iteration order wins (selection is not repeated)" if not on_cycle else "after selecting a port the loops continue and a later tower/floor overrides it: the last TCP floor wins, not the first")
        # (d) iteration order: outer loop over <res>.towers, inner over the tower, no reversal/sort
        enclosing = [l for l in loops if any(x is st for x in ast.walk(l))]
        its = [unparse(l.iter) for l in enclosing if isinstance(l, ast.For)]
        okit = len(its) == 2 and its[0] == f"{res_var}.towers" and isinstance(enclosing[0], ast.For) and its[1] == unparse(enclosing[0].target)
        chk.ob(rule, site, okit, "iterates towers, then floors, in reply order" if okit else f"loops iterate {its}, expected {res_var}.towers then each tower in order")
    # ---- what is returned is a selected port; falling through raises
    var_selects = {unparse(st.targets[0]) for st, _ in selects if isinstance(st, ast.Assign)}
    for n in body_nodes(f.node):
        if isinstance(n, ast.Return):
            v = n.value
            ok = v is not None and ((isinstance(v, ast.Attribute) and v.attr == "port" and (not isinstance(v.value, ast.Name) or v.value.id in obj_vars or v.value.id in loop_vars)) or unparse(v) in var_selects)
            chk.ob(rule, Site.of(f, n), ok, "returns the selected port" if ok else f"returns {unparse(v)} which is not a selected TCP port")
    falls = [p for p, lab in g.pred[g.ret] if not (g.nodes[p].kind == "stmt" and isinstance(g.nodes[p].ast, ast.Return))]
    chk.ob(rule, Site.of(f, construct="fall through after the loops"), not falls, "absence of a TCP floor raises" if not falls else "the function can fall off its end (returns None) when no TCP floor is present")
    # a variable based selection must not return a default on the no-match path
    for name in var_selects:
        inits = [n for n in body_nodes(f.node) if isinstance(n, (ast.Assign, ast.AnnAssign)) and n.value is not None and unparse(n.targets[0] if isinstance(n, ast.Assign) else n.target) == name and not (isinstance(n.value, ast.Attribute) and n.value.attr == "port") and not any(n is st_ for st_, _ in selects)]
        for i in inits:
            okc, cv = repo.try_fold(i.value, f.mod)
            if not (okc and cv is None):
                chk.ob(rule, Site.of(f, i), False, f"{name} starts as {unparse(i.value)}: without a TCP floor that value would be returned as the port")
    # status raise exists
    raises = [n for n in body_nodes(f.node) if isinstance(n, ast.Raise)]
    chk.ob(rule, Site.of(f, construct="error exits"), len(raises) >= 2, f"{len(raises)} raising exits (status, no TCP floor)")


def _reaches(g: t.Any, src: int, dst: int) -> bool:
    seen = set()
    stack = [y for y, lab in g.succ[src]]
    while stack:
        x = stack.pop()
        if x == dst:
            return True
        if x in seen:
            continue
        seen.add(x)
        stack += [y for y, lab in g.succ[x]]
    return False
