"""C13 - request framing: lengths, alignment, and exactly the stub region is sealed."""

from __future__ import annotations

import ast
import typing as t

from sa import layout
from sa.load import AnalysisError, Repo
from sa.report import Check, Site
from sa.sym import Lin, Ref, SBytes, Seg, SObj, mod
from sa.symeval import BSlice, CallVal, SView, STuple, TRef, Unknown  # noqa: F401

from . import codecs
from .c11 import _trim, implied
from .c16 import provider, unwrap_args


def run(repo: Repo, chk: Check) -> None:
    chk.scope_decides = (
        "symbolically in the stub length: O1 the literal offsets used outside the codecs (24, view[8:10], + 8) equal the offsets derived "
        "from the Request/Response/PDUHeader/SecTrailer layout tables; O2 verification trailer after (-len) mod 4 zero bytes, auth padding "
        "(-len) mod 16 computed after the trailer, and pad bytes appended = get_empty_trailer argument; O3 auth_len = len(auth_value), "
        "alloc_hint = len(final stub), frag_len patched with len(PDU); O4 _prepare_pdu hands wrap exactly [0:o0], [o0:o1], [o1:o1+8] and the "
        "provider's IOV marks header/trailer sign_only|data_readonly, body data, encrypt=True; unwrap mirrors it; O5 exactly pad_length reply bytes are cut."
    )
    chk.scope_not = "what the security context does with the buffers; the signature size returned by query_message_sizes."
    chk.trusted = ["Python slicing/bytes semantics", "layout tables extracted by E4 for Request, Response, PDUHeader, SecTrailer"]
    sizes = codecs.sizes_of(repo)
    hsz = sizes.size(repo.cls("_rpc._pdu.PDUHeader"))
    tsz = sizes.size(repo.cls("_rpc._pdu.SecTrailer"))
    if hsz is None or tsz is None:
        raise AnalysisError("PDUHeader/SecTrailer size not derivable")
    fixed_tr = tsz - Lin.atom(("len", "self.auth_value"))
    stub_off = stub_offsets(repo, chk)
    create_request(repo, chk, stub_off, fixed_tr)
    prepare_pdu(repo, chk, fixed_tr)
    empty_trailer(repo, chk)
    provider(repo, chk)
    unwrap_args(repo, chk)
    _trim(repo, chk)
    # rename shared obligations under this property's rule names is not needed: rule ids carry the property prefix


def empty_trailer(repo: Repo, chk: Check) -> None:
    """get_empty_trailer(pad_length) returns, on every path, a freshly built trailer whose pad_length field is its
    argument and whose auth_value is a zero placeholder of the signature size (nothing cached from an earlier call)."""
    f = repo.method("_rpc._auth.AuthenticationProvider", "get_empty_trailer")
    chk.analysed(f)
    n = 0
    for st, out in layout.Interp(repo, f).run(layout.self_state(repo, f)):
        if out.kind != "return":
            continue
        n += 1
        res = out.value
        site = Site.of(f, out.node, "get_empty_trailer result")
        ok = isinstance(res, SObj) and res.cls.name == "SecTrailer"
        if not ok:
            chk.ob("O2", site, False, f"get_empty_trailer returns {res!r}: not a trailer built for this call (a cached trailer carries the pad_length of an earlier request)")
            continue
        pl = res.fields.get("pad_length")
        okp = isinstance(pl, Lin) and pl == Lin.atom(("field", f.params[1]))
        chk.ob("O2", site, okp, "trailer.pad_length = the pad_length argument" if okp else f"trailer.pad_length is {pl!r}, not the pad_length argument")
        av = res.fields.get("auth_value")
        segs = getattr(av, "segs", [])
        okv = len(segs) == 1 and segs[0].kind == "pad" and segs[0].byte == b"\x00"
        chk.ob("O3", site, okv, "auth_value = zero placeholder of the signature size" if okv else f"auth_value placeholder is {av!r}")
    chk.ob("O2", Site.of(f, construct="get_empty_trailer paths"), n >= 1, f"{n} returning path(s)")
    # the placeholder size is the signature size of *this* security context: queried from self.ctx on this path, or a
    # per-instance memo of exactly that query - never state shared between providers / contexts
    from sa.pathsum import Summary

    from .util import args_of

    QUERY = "self.ctx.query_message_sizes().header"
    cls = repo.cls("_rpc._auth.AuthenticationProvider")
    memo_ok: t.Dict[str, bool] = {}

    def instance_memo(attr: str) -> bool:
        """self.<attr> is only ever assigned 0/None or the size query of self.ctx (in any method of the class)."""
        if attr in memo_ok:
            return memo_ok[attr]
        memo_ok[attr] = True
        ok_all = attr not in cls.class_consts or isinstance(cls.class_consts[attr], ast.Constant)
        for m in cls.methods.values():
            for ps2 in Summary(m).paths:
                for e in ps2.stores():
                    if ps2.text(e.target) == f"self.{attr}":
                        v = ps2.text(e.tree)
                        ok_all = ok_all and (v in ("0", "None", QUERY, f"self.{attr} or {QUERY}") or (v.startswith(f"self.{attr}") and False))
        memo_ok[attr] = ok_all
        return ok_all

    def size_ok(ps: t.Any, tree: t.Optional[ast.AST]) -> bool:
        txt = ps.text(tree)
        if txt == QUERY:
            return True
        if isinstance(tree, ast.BoolOp) and isinstance(tree.op, ast.Or):
            return all(size_ok(ps, v) for v in tree.values)
        if isinstance(tree, ast.Attribute) and isinstance(tree.value, ast.Name) and tree.value.id == "self":
            return instance_memo(tree.attr)
        return False

    for ps in Summary(f, ["self", "pad_length"]).returning():
        v = ps.value
        kws = args_of(repo, f, v) if isinstance(v, ast.Call) else {}
        av = kws.get("auth_value")
        size: t.Optional[ast.AST] = None
        if isinstance(av, ast.BinOp) and isinstance(av.op, ast.Mult):
            size = av.right if isinstance(av.left, ast.Constant) else av.left
        elif isinstance(av, ast.Call) and isinstance(av.func, ast.Name) and av.func.id == "bytes" and len(av.args) == 1:
            size = av.args[0]
        ok = size is not None and size_ok(ps, size)
        chk.ob("O3", Site.of(f, ps.exit_node, "signature size of this context"), ok, "placeholder size = self.ctx.query_message_sizes().header (queried now or memoised on this instance)" if ok else f"the placeholder size is {ps.text(size) if size is not None else ps.text(av)}: not the signature size of this provider's own security context (state shared between providers hands one context's size to another: auth_len and frag_len no longer match the bytes sent)")


def stub_offsets(repo: Repo, chk: Check) -> Lin:
    """Offset of stub_data in Request (obj absent) and in Response, from the writer tables."""
    from sa.agree import Table

    offs = []
    for q, cond in (("_rpc._request.Request", ("self.obj", False)), ("_rpc._request.Response", None)):
        cls = repo.cls(q)
        fw = cls.methods["pack"]
        chk.analysed(fw)
        for p in layout.writer_paths(repo, fw):
            if cond is not None and not any(c.info.get("truthy") == cond[0] and pol == cond[1] for c, pol in _implied(p.conds)):
                continue
            tb = Table(codecs.sizes_of(repo)._expand(p.segs))
            for seg, off in zip(tb.segs, tb.offs):
                if seg.kind == "raw" and seg.ref.path == "self.stub_data":
                    offs.append((cls.name, off))
    vals = {repr(o) for _, o in offs}
    ok = len(offs) >= 2 and len(vals) == 1 and offs[0][1].is_const()
    f = repo.method("_rpc._client.RpcClient", "_create_request")
    chk.ob("O1", Site.of(f, construct="offset of stub_data in Request and Response"), ok, f"stub starts at {offs[0][1]!r} in both" if ok else f"stub offsets differ or are not constant: {[(n, repr(o)) for n, o in offs]}")
    if not ok:
        raise AnalysisError("stub offset not derivable from the layout tables")
    return offs[0][1]


def _raw(path: str) -> SBytes:
    return SBytes([Seg("raw", Lin.atom(("len", path)), ref=Ref(path))])


def create_request(repo: Repo, chk: Check, stub_off: Lin, fixed_tr: Lin) -> None:
    f = repo.method("_rpc._client.RpcClient", "_create_request")
    chk.analysed(f)
    st0 = layout.self_state(repo, f)
    st0.env["stub_data"] = _raw("stub_data")
    n = 0
    L = Lin.atom(("len", "stub_data"))
    for st, out in layout.Interp(repo, f).run(st0):
        if out.kind != "return":
            continue
        facts = implied(st.conds)
        vt = any(c.info.get("truthy") == "verification_trailer" and pol for c, pol in facts)
        auth = any(c.info.get("truthy") == "self._auth" and pol for c, pol in facts)
        n += 1
        tag = f"[verification_trailer={'yes' if vt else 'no'}, auth={'yes' if auth else 'no'}]"
        res = out.value
        site = Site.of(f, out.node, f"_create_request {tag}")
        if not (isinstance(res, STuple) and len(res.items) == 2 and isinstance(res.items[0], SObj) and res.items[0].cls.name == "Request"):
            chk.ob("O3", site, False, f"does not return (Request(...), encrypt_offsets): {res!r}")
            continue
        req, eo = res.items
        stub = req.fields.get("stub_data")
        segs = stub.segs if isinstance(stub, SBytes) else []
        # ---- expected layout of the final stub
        want: t.List[t.Tuple[str, t.Any]] = [("raw", "stub_data")]
        total = L
        if vt:
            w = mod(-L, 4)
            want.append(("pad", w))
            want.append(("nested", "verification_trailer"))
            total = total + w + Lin.atom(("size", "verification_trailer"))
        padlen = None
        if auth:
            padlen = mod(-total, 16)
            want.append(("pad", padlen))
            total = total + padlen
        got: t.List[t.Tuple[str, t.Any]] = []
        for sg in segs:
            if sg.kind == "raw":
                got.append(("raw", sg.ref.path))
            elif sg.kind == "pad":
                got.append(("pad", sg.width))
            elif sg.kind == "nested":
                got.append(("nested", sg.ref.path))
            elif sg.kind == "lit" and not sg.value:
                continue
            else:
                got.append((sg.kind, repr(sg.describe())))
        ok = len(got) == len(want) and all(a[0] == b[0] and (a[1] == b[1]) for a, b in zip(got, want))
        detail = "stub || (-len) mod 4 zeros || verification trailer || (-len) mod 16 zeros (as applicable)"
        if not ok:
            detail = f"final stub is {[(k, repr(v)) for k, v in got]}, expected {[(k, repr(v)) for k, v in want]}"
        chk.ob("O2", site, ok, detail)
        # ---- header fields
        ah = req.fields.get("alloc_hint")
        sl = stub.length() if isinstance(stub, SBytes) else None
        okh = isinstance(ah, Lin) and sl is not None and ah == sl
        chk.ob("O3", site, okh, "alloc_hint = len(final stub)" if okh else f"alloc_hint is {ah!r}, the final stub has {sl!r} bytes")
        for name in ("context_id", "opnum"):
            v = req.fields.get(name)
            okp = isinstance(v, Lin) and v == Lin.atom(("field", name))
            chk.ob("O3", site, okp, f"{name} passed through" if okp else f"Request.{name} is {v!r}")
        okobj = req.fields.get("obj", 0) is None
        chk.ob("O3", site, okobj, "no object UUID" if okobj else f"Request.obj is {req.fields.get('obj')!r} but encrypt offsets assume the stub at offset {stub_off!r}")
        hdr_calls = [c for c in st.calls if c.name.endswith("._create_pdu_header")]
        trailer_calls = [c for c in st.calls if c.name.endswith(".get_empty_trailer")]
        hdr = req.fields.get("header")
        okhc = len(hdr_calls) == 1 and isinstance(hdr, CallVal) and hdr.rec is hdr_calls[0]
        chk.ob("O3", site, okhc, "header from _create_pdu_header" if okhc else "Request.header is not the _create_pdu_header(...) result")
        auth_len = hdr_calls[0].arg(1) if hdr_calls else None
        tr = req.fields.get("sec_trailer", 0)
        if auth:
            okt = len(trailer_calls) == 1 and isinstance(tr, CallVal) and tr.rec is trailer_calls[0]
            chk.ob("O3", site, okt, "sec_trailer from get_empty_trailer" if okt else f"Request.sec_trailer is {tr!r}")
            if okt:
                pa = trailer_calls[0].arg(0)
                okpa = isinstance(pa, Lin) and padlen is not None and pa == padlen
                chk.ob("O2", Site.of(f, trailer_calls[0].node), okpa, "pad_length argument = number of padding bytes appended = (-len) mod 16 after the verification trailer" if okpa else f"get_empty_trailer({pa!r}) but {padlen!r} padding bytes are appended")
                want_al = Lin.atom(("len", f"{tr!r}.auth_value"))
                okal = isinstance(auth_len, Lin) and auth_len == want_al
                chk.ob("O3", site, okal, "auth_len = len(sec_trailer.auth_value)" if okal else f"auth_len is {auth_len!r}, expected len(sec_trailer.auth_value)")
            # encrypt offsets
            oke = isinstance(eo, STuple) and len(eo.items) == 2 and isinstance(eo.items[0], Lin) and eo.items[0] == stub_off and isinstance(eo.items[1], Lin) and sl is not None and eo.items[1] == stub_off + sl
            chk.ob("O1", site, oke, f"encrypt_offsets = ({stub_off!r}, {stub_off!r} + len(final stub))" if oke else f"encrypt_offsets is {eo!r}, expected ({stub_off!r}, {stub_off!r} + {sl!r})")
        else:
            chk.ob("O3", site, tr is None and eo is None and isinstance(auth_len, Lin) and auth_len == 0, "no trailer, no offsets, auth_len 0 without authentication" if (tr is None and eo is None) else f"unauthenticated request carries trailer={tr!r} offsets={eo!r}")
    chk.count("request paths", n)
    chk.require_min("request paths", 4)


def prepare_pdu(repo: Repo, chk: Check, fixed_tr: Lin) -> None:
    f = repo.method("_rpc._client.RpcClient", "_prepare_pdu")
    chk.analysed(f)
    # frag_len slot from the PDUHeader writer table
    from sa.agree import Table

    hdr = repo.cls("_rpc._pdu.PDUHeader")
    slot = None
    for p in layout.writer_paths(repo, hdr.methods["pack"]):
        tb = Table(codecs.sizes_of(repo)._expand(p.segs))
        for seg, off in zip(tb.segs, tb.offs):
            if seg.kind == "int" and repr(seg.value) == "self.frag_len":
                slot = (off, off + seg.width, seg.order, seg.width)
    if slot is None:
        raise AnalysisError("frag_len slot not found in PDUHeader table")
    n = 0
    for st, out in layout.Interp(repo, f).run(layout.self_state(repo, f)):
        if out.kind != "return":
            continue
        n += 1
        facts = implied(st.conds)
        eo_name = f.params[2] if len(f.params) > 2 else "encrypt_offsets"
        sealed = any(c.info.get("truthy") == "self._auth" and pol for c, pol in facts) and any(c.info.get("truthy") == eo_name and pol for c, pol in facts)
        site = Site.of(f, out.node, f"_prepare_pdu [{'sealed' if sealed else 'clear'}]")
        packed = [s for s in st.stores]
        okp = False
        why = "frag_len is not patched"
        for base, idx, val, node in packed:
            lo = getattr(idx, "lo", None)
            hi = getattr(idx, "hi", None)
            if isinstance(idx, BSlice):
                lo, hi = idx.lo, idx.hi
            if lo is None:
                continue
            vs = val.segs if isinstance(val, SBytes) else []
            if lo == slot[0] and hi == slot[1] and len(vs) == 1 and vs[0].kind == "int" and vs[0].width == slot[3] and vs[0].order == slot[2]:
                okp = "pdu.pack()" in repr(vs[0].value) or "size self" in repr(vs[0].value) or "size" in repr(vs[0].value)
                why = f"frag_len slot [{slot[0]!r}:{slot[1]!r}] patched with {vs[0].value!r}"
            else:
                why = f"store at [{lo!r}:{hi!r}] of {val!r}; the frag_len slot is [{slot[0]!r}:{slot[1]!r}] {slot[2]}-endian"
        chk.ob("O3", site, bool(okp), why if okp else why)
        if sealed:
            wr = [c for c in st.calls if c.name.endswith(".wrap")]
            okw = len(wr) == 1 and getattr(out.value, "rec", None) is wr[0]
            chk.ob("O4", site, okw, "returns the wrapped PDU" if okw else "the sealed path does not return self._auth.wrap(...)")
            if not wr:
                continue
            o0 = Lin.atom(("field", f"{eo_name}[0]"))
            o1 = Lin.atom(("field", f"{eo_name}[1]"))
            want = [("header", None, o0), ("body", o0, o1), ("security trailer header", o1, o1 + fixed_tr)]
            for i, (what, lo, hi) in enumerate(want):
                a = wr[0].arg(i)
                alo = getattr(a, "lo", None)
                ahi = getattr(a, "hi", None)
                ok = isinstance(a, (BSlice, SView)) and (alo == lo or (lo is None and (alo is None or alo == 0))) and ahi == hi
                chk.ob("O4", Site.of(f, wr[0].node), ok, f"{what} = pdu[{'' if lo is None else repr(lo)}:{hi!r}]" if ok else f"wrap {what} argument is {a!r}, expected pdu[{'' if lo is None else repr(lo)}:{hi!r}]")
            sh = wr[0].arg(3)
            oks = getattr(sh, "what", None) == "self._sign_header" or (isinstance(sh, TRef) and sh.path == "self._sign_header")
            chk.ob("O4", Site.of(f, wr[0].node), oks, "sign_header = self._sign_header" if oks else f"wrap sign_header argument is {sh!r}")
        else:
            okc = not any(c.name.endswith(".wrap") for c in st.calls)
            chk.ob("O4", site, okc, "clear path sends the packed PDU")
    chk.count("prepare paths", n)
    chk.require_min("prepare paths", 2)


def _implied(conds: t.Any) -> t.Any:
    from .c11 import implied

    return implied(conds)
