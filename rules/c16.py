"""C16 - key material is accepted only from replies sealed by the security context."""

from __future__ import annotations

import ast
import typing as t

from sa import layout
from sa.cfg import build
from sa.load import AnalysisError, Func, Repo, body_nodes, unparse
from sa.report import Check, Site
from sa.sym import Lin
from sa.symeval import CallVal, SView, TRef

from . import codecs


def run(repo: Repo, chk: Check) -> None:
    chk.scope_decides = (
        "O1 in _process_response every path that returns a PDU on an authenticated call with a sealed request passes through "
        "AuthenticationProvider.unwrap and stores its result over the stub region before the PDU is parsed (finite enumeration of the "
        "truth values of the atomic conditions); O2 unwrap receives exactly the raw wire windows header [0:o0], body [o0:sto], trailer "
        "[sto:sto+8], signature [sto+8:] with sto = frag_len - (auth_len + 8) and the negotiated sign_header, and the provider verifies "
        "on every path with header and trailer as sign_only/data_readonly buffers; O3 both trailers are built at PKT_PRIVACY and wrap "
        "encrypts; O4 request() returns the PDU parsed from the post-unwrap buffer in both transports; O5 no handler swallows a failure."
    )
    chk.scope_not = "replay protection and cryptographic strength inside the security context (spnego); the peer's behaviour."
    chk.trusted = ["spnego unwrap_iov raises on a bad signature and returns the decrypted data buffer", "Python slicing semantics"]
    must_unwrap(repo, chk)
    unwrap_args(repo, chk)
    provider(repo, chk)
    request_path(repo, chk)
    sealed_requests(repo, chk)
    no_swallow(repo, chk, "O5", ["_rpc._client", "_rpc._auth"])
    wire_bytes(repo, chk)


class _Relabel:
    """Check facade that files another rule module's obligations under one obligation id of this property."""

    def __init__(self, chk: Check, rule: str) -> None:
        self._chk, self._rule = chk, rule

    def ob(self, _rule: str, *a: t.Any, **k: t.Any) -> t.Any:
        return self._chk.ob(self._rule, *a, **k)

    def __getattr__(self, name: str) -> t.Any:
        return getattr(self._chk, name)


def wire_bytes(repo: Repo, chk: Check) -> None:
    """What _process_response verifies and parses is the reply as it arrived: in both transports the buffer handed over is
    the received header bytes followed by the completely received body (C14's reassembly rule, filed here under O2 - the
    windows given to unwrap are windows of that buffer)."""
    from sa.intervals import World
    from sa.symeval import Unsupported

    from . import c14

    sub = _Relabel(chk, "O2")
    helpers = c14.transport_reads(repo, t.cast(Check, sub), World(repo))
    for q in ("_rpc._client.SyncRpcClient._send_pdu", "_rpc._client.AsyncRpcClient._send_pdu"):
        try:
            c14.reassembly(repo, t.cast(Check, sub), repo.func(q), helpers)
        except Unsupported as e:
            if any(not o.ok and o.site.function == q for o in chk.obligations):
                continue
            raise AnalysisError(f"{q} left the idiom table: {e}")


# ------------------------------------------------------------------------- O1
def must_unwrap(repo: Repo, chk: Check) -> None:
    """Path summaries of _process_response (paths that decide one condition both ways are infeasible and dropped): every
    returning path on which the call is authenticated and the request was sealed (self._auth and encrypt_offsets true)
    calls self._auth.unwrap, stores that result into the reply buffer, then parses the buffer, and returns that PDU."""
    from sa.pathsum import Summary

    from .util import recv_of

    f = repo.method("_rpc._client.RpcClient", "_process_response")
    chk.analysed(f)
    # asserts are not checks: `python -O` strips them, so a failing assert may fall through on these paths
    summ = Summary(f, ["self", "response", "pdu_header", "resp_type", "encrypt_offsets"], prune=True, asserts_may_pass=True)
    for n in body_nodes(f.node):
        if isinstance(n, (ast.Assign, ast.AugAssign, ast.AnnAssign)):
            for tg in (n.targets if isinstance(n, ast.Assign) else [n.target]):
                if unparse(tg) in ("self._auth", "encrypt_offsets", "pdu_header", "self", "pdu_header.auth_len"):
                    chk.ob("O1", Site.of(f, n, f"assignment to {unparse(tg)}"), False, f"{unparse(tg)} is reassigned inside _process_response: the authenticated-call test is no longer stable")
    total = sealed = 0
    bad: t.List[str] = []
    for ps in summ.returning():
        total += 1
        facts = ps.facts()
        site_r = Site.of(f, ps.exit_node)
        parses = [c for c in ps.calls("PDU.unpack") if [ps.text(a) for a in t.cast(ast.Call, c.tree).args] == ["response"]]
        okv = len(parses) >= 1 and ps.key(ps.value) == ps.key(parses[-1].tree)
        chk.ob("O1", site_r, okv, "returns the PDU parsed from the reply buffer" if okv else f"returns {ps.text(ps.value)[:80]}, not PDU.unpack(response)")
        if not ("self._auth" in facts and "encrypt_offsets" in facts):
            continue
        sealed += 1
        unw = [c for c in ps.calls("unwrap") if ps.text(recv_of(t.cast(ast.Call, c.tree))) == "self._auth"]
        if not unw:
            bad.append("returns a PDU without calling unwrap on an authenticated call with a sealed request (path: " + ", ".join(sorted(facts))[:200] + ")")
            continue
        order = {id(e): i for i, e in enumerate(ps.events)}
        st = [e for e in ps.stores() if isinstance(e.target, ast.Subscript) and ps.text(e.target.value) == "response" and ps.key(e.tree) == ps.key(unw[0].tree)]
        if not st or not parses or not (order[id(unw[0])] < order[id(st[0])] < order[id(parses[-1])]):
            bad.append("does not store the unwrapped stub into the reply before parsing it")
    chk.count("sealed return paths", sealed)
    chk.table("_process_response paths", {"returning": total, "returning with auth and sealed request": sealed})
    site = Site.of(f, construct="every accepted reply on an authenticated, sealed call passes through unwrap")
    chk.ob("O1", site, not bad and sealed > 0, "all such paths unwrap, store, then parse" if not bad else "; ".join(sorted(set(bad))[:3]))
    chk.require_min("sealed return paths", 1)


# ------------------------------------------------------------------------- O2
def unwrap_args(repo: Repo, chk: Check) -> None:
    f = repo.method("_rpc._client.RpcClient", "_process_response")
    tsz = codecs.sizes_of(repo).size(repo.cls("_rpc._pdu.SecTrailer"))
    if tsz is None:
        raise AnalysisError("SecTrailer size unknown")
    fixed = tsz - Lin.atom(("len", "self.auth_value"))
    buf = f.params[1]
    end = Lin.atom(("end", buf))
    hdr_name = f.params[2] if len(f.params) > 2 else "pdu_header"
    frag = Lin.atom(("field", f"{hdr_name}.frag_len"))
    auth = Lin.atom(("field", f"{hdr_name}.auth_len"))
    o0 = Lin.atom(("field", f"{f.params[4] if len(f.params) > 4 else 'encrypt_offsets'}[0]"))
    sto = frag - (auth + fixed)
    want = [("header", Lin(0), o0), ("body", o0, sto), ("security trailer", sto, sto + fixed), ("signature", sto + fixed, end)]
    n = 0
    for st, out in layout.Interp(repo, f).run(layout.self_state(repo, f)):
        calls = [c for c in st.calls if c.name.endswith(".unwrap")]
        if not calls:
            continue
        n += 1
        c = calls[0]
        site = Site.of(f, c.node)
        for i, (what, lo, hi) in enumerate(want):
            a = c.arg(i)
            ok = isinstance(a, SView) and a.src == buf and a.lo == lo and a.hi == hi
            chk.ob("O2", site, ok, f"{what} = reply[{lo!r}:{hi!r}]" if ok else f"unwrap {what} argument is {a!r}, expected the raw reply bytes [{lo!r}:{hi!r}]")
        sh = c.arg(4)
        oks = (isinstance(sh, Lin) and sh == Lin.atom(("field", "self._sign_header"))) or (isinstance(sh, TRef) and sh.path == "self._sign_header") or getattr(sh, "what", None) == "self._sign_header"
        chk.ob("O2", site, bool(oks), "sign_header = self._sign_header" if oks else f"unwrap sign_header argument is {sh!r}, not the negotiated self._sign_header")
        stores = [s for s in st.stores if isinstance(s[0], SView) and s[0].src == buf]
        oks2 = any(isinstance(idx, SView) and idx.lo == o0 and idx.hi == sto and isinstance(val, CallVal) and val.rec is c for _, idx, val, _ in stores)
        chk.ob("O2", site, oks2, "unwrapped stub stored over reply[o0:sto]" if oks2 else f"the unwrap result is not stored over reply[{o0!r}:{sto!r}] ({[(repr(i), repr(v)) for _, i, v, _ in stores]})")
        break
    chk.count("unwrap call paths", n)
    chk.require_min("unwrap call paths", 1)


# ------------------------------------------------------------------------- O2/O3 provider
def _iov_shape(ps: t.Any, call: ast.Call, with_signature: bool) -> t.Optional[str]:
    """The IOV handed to the security context on one path: [sign(header), body, sign(trailer), header-buffer[, signature]]
    with sign = sign_only when header signing was negotiated and data_readonly otherwise."""
    if not call.args or not isinstance(call.args[0], (ast.List, ast.Tuple)):
        return "the IOV is not a list literal"
    el = call.args[0].elts
    if len(el) != 4:
        return f"the IOV has {len(el)} buffers, expected header, body, trailer, signature"
    facts = ps.facts()

    def kind_ok(e: ast.expr) -> bool:
        if isinstance(e, ast.IfExp):
            return ps.text(e.test) == "sign_header" and ps.text(e.body).endswith("BufferType.sign_only") and ps.text(e.orelse).endswith("BufferType.data_readonly")
        if "sign_header" in facts:
            return ps.text(e).endswith("BufferType.sign_only")
        if "not (sign_header)" in facts:
            return ps.text(e).endswith("BufferType.data_readonly")
        return False

    def tup(e: ast.expr, name: str) -> bool:
        return isinstance(e, ast.Tuple) and len(e.elts) == 2 and kind_ok(e.elts[0]) and ps.text(e.elts[1]) == name

    if not tup(el[0], "header"):
        return f"first IOV buffer is {ps.text(el[0])} (path: {sorted(facts)}), expected (sign_only if sign_header else data_readonly, header)"
    if ps.text(el[1]) != "body":
        return f"second IOV buffer is {ps.text(el[1])}, expected the data buffer body"
    if not tup(el[2], "trailer"):
        return f"third IOV buffer is {ps.text(el[2])} (path: {sorted(facts)}), expected (sign_only if sign_header else data_readonly, trailer)"
    if with_signature:
        if not (isinstance(el[3], ast.Tuple) and len(el[3].elts) == 2 and ps.text(el[3].elts[0]).endswith("BufferType.header") and ps.text(el[3].elts[1]) == "signature"):
            return f"fourth IOV buffer is {ps.text(el[3])}, expected (BufferType.header, signature)"
    elif not ps.text(el[3]).endswith("BufferType.header"):
        return f"fourth IOV buffer is {ps.text(el[3])}, expected BufferType.header"
    return None


def _buffer_data(ps: t.Any, e: t.Optional[ast.expr], call: ast.Call, idx: int) -> bool:
    """e is `<call>.buffers[idx].data` (optionally `or b''`)."""
    if e is None:
        return False
    k = ps.key(e)
    base = f"{ps.key(call)}.buffers[{idx}].data"
    return k in (base, f"{base} or b''")


def provider(repo: Repo, chk: Check) -> None:
    from sa.pathsum import Summary

    cls = repo.cls("_rpc._auth.AuthenticationProvider")
    for name, api, with_sig in (("unwrap", "unwrap_iov", True), ("wrap", "wrap_iov", False)):
        f = cls.methods.get(name)
        if f is None:
            raise AnalysisError(f"AuthenticationProvider.{name} vanished")
        chk.analysed(f)
        ref = ["self", "header", "body", "trailer"] + (["signature"] if with_sig else []) + ["sign_header"]
        summ = Summary(f, ref)
        rets = summ.returning()
        if not rets:
            raise AnalysisError(f"AuthenticationProvider.{name}: no returning path")
        for ps in rets:
            calls = [c for c in ps.calls(api) if ps.text(t.cast(ast.Call, c.tree).func) == f"self.ctx.{api}"]
            site = Site.of(f, calls[0].node if calls else ps.exit_node, None if calls else f"{name}: {api} call")
            okr = len(calls) == 1
            chk.ob("O2", Site.of(f, ps.exit_node, f"{name}: every return is dominated by {api}"), okr, "no path returns data that did not pass through the security context" if okr else f"{name} has a return path that {'bypasses' if not calls else 'repeats'} self.ctx.{api}: data is accepted without verification")
            if not okr:
                continue
            call = t.cast(ast.Call, calls[0].tree)
            why = _iov_shape(ps, call, with_sig)
            chk.ob("O2", site, why is None, "IOV = [sign(header), data(body), sign(trailer), header-buffer]; header/trailer are sign_only iff header signing was negotiated" if why is None else why)
            if name == "unwrap":
                okv = _buffer_data(ps, ps.value, call, 1)
                chk.ob("O2", Site.of(f, ps.exit_node), okv, "returns the decrypted data buffer" if okv else f"unwrap returns {ps.text(ps.value)}, not the data buffer of the verified IOV")
            else:
                enc = [kw for kw in call.keywords if kw.arg == "encrypt"]
                oke = bool(enc) and isinstance(enc[0].value, ast.Constant) and enc[0].value.value is True
                chk.ob("O3", site, oke, "wrap_iov(encrypt=True)" if oke else "wrap does not request encryption (encrypt=True)")
                v = ps.value
                from .util import concat_parts

                parts = concat_parts(v)
                okw = len(parts) == 4 and ps.text(parts[0]) == "header" and _buffer_data(ps, parts[1], call, 1) and ps.text(parts[2]) == "trailer" and _buffer_data(ps, parts[3], call, 3)
                chk.ob("O3", Site.of(f, ps.exit_node), okw, "PDU = header || sealed body || trailer || signature" if okw else f"wrap returns {[ps.text(p) for p in parts] or ps.text(v)}, expected [header, <sealed>.buffers[1].data, trailer, <sealed>.buffers[3].data]")
    # both trailers at PKT_PRIVACY
    for name in ("step", "get_empty_trailer"):
        f = cls.methods.get(name)
        if f is None:
            raise AnalysisError(f"AuthenticationProvider.{name} vanished")
        chk.analysed(f)
        ctors = [n for n in body_nodes(f.node) if isinstance(n, ast.Call) and unparse(n.func) == "SecTrailer"]
        if not ctors:
            chk.ob("O3", Site.of(f, construct=f"{name}: SecTrailer"), False, "no SecTrailer built")
        for c in ctors:
            lv = [kw.value for kw in c.keywords if kw.arg == "level"] or (c.args[1:2])
            okl, v = repo.try_fold(lv[0], f.mod) if lv else (False, None)
            ok = okl and getattr(v, "name", None) == "RPC_C_AUTHN_LEVEL_PKT_PRIVACY" and getattr(v, "value", None) == 6
            chk.count("trailer levels")
            chk.ob("O3", Site.of(f, c, f"{name}: SecTrailer(level=...)"), ok, "level = RPC_C_AUTHN_LEVEL_PKT_PRIVACY (6)" if ok else f"security trailer level is {v!r}, the GetKey call must be sealed at PKT_PRIVACY")
    chk.require_min("trailer levels", 2)


# ------------------------------------------------------------------------- O4
def sealed_requests(repo: Repo, chk: Check) -> None:
    """_create_request: on every returning path of an authenticated client the request carries a security trailer and
    the encrypt offsets are a (start, end) pair - never None - whatever the stub looks like (an empty stub is still
    sealed); otherwise _process_response has no reason to insist on a protected reply."""
    from sa.pathsum import Summary

    from .util import args_of

    f = repo.method("_rpc._client.RpcClient", "_create_request")
    chk.analysed(f)
    summ = Summary(f, ["self", "context_id", "opnum", "stub_data", "verification_trailer"], prune=True)
    n = 0
    for ps in summ.returning():
        if "self._auth" not in ps.facts():
            continue
        n += 1
        v = ps.value
        site = Site.of(f, ps.exit_node)
        ok = isinstance(v, ast.Tuple) and len(v.elts) == 2
        eo = v.elts[1] if ok else None
        from sa.pathsum import _carrier_fields

        cf = _carrier_fields(eo, f.mod) if eo is not None else None
        okeo = (isinstance(eo, ast.Tuple) and len(eo.elts) == 2) or (cf is not None and len([k for k in cf if not k.startswith("__")]) == 2)
        chk.ob("O3", site, bool(okeo), "authenticated requests always carry encrypt offsets (start, end)" if okeo else f"on an authenticated client _create_request can return encrypt offsets {ps.text(eo) if eo is not None else '?'} (path: {', '.join(sorted(ps.facts()))[:160]}): the request goes out unsealed and the reply is accepted without unwrap")
        req = v.elts[0] if ok else None
        kws = args_of(repo, f, req) if isinstance(req, ast.Call) else {}
        okt = kws.get("sec_trailer") is not None and ps.text(kws["sec_trailer"]).startswith("self._auth.get_empty_trailer(")
        chk.ob("O3", site, okt, "with the provider's security trailer" if okt else f"Request.sec_trailer is {ps.text(kws.get('sec_trailer'))}")
    chk.ob("O3", Site.of(f, construct="authenticated request paths"), n >= 1, f"{n} authenticated returning path(s)")


def request_path(repo: Repo, chk: Check) -> None:
    for q in ("_rpc._client.SyncRpcClient.request", "_rpc._client.AsyncRpcClient.request"):
        f = repo.func(q)
        chk.analysed(f)
        for st, out in layout.Interp(repo, f).run(layout.self_state(repo, f)):
            if out.kind != "return":
                continue
            cr = [c for c in st.calls if c.name.endswith("._create_request")]
            sp = [c for c in st.calls if c.name.endswith("._send_pdu")]
            site = Site.of(f, sp[0].node if sp else None, None if sp else f"{f.name}: _send_pdu")
            ok = len(cr) == 1 and len(sp) == 1 and getattr(out.value, "rec", None) is sp[0]
            chk.ob("O4", site, ok, "request returns what _send_pdu returns" if ok else "request() does not return the result of a single _send_pdu(...) call")
            if not ok:
                continue
            eo_p = sp[0].func.params[3] if sp[0].func is not None and len(sp[0].func.params) > 3 else "encrypt_offsets"
            eo = sp[0].arg(3, eo_p)
            req = sp[0].arg(0)
            # (req, encrypt_offsets) = self._create_request(...)
            good = _tuple_elem(eo, cr[0], 1) and _tuple_elem(req, cr[0], 0)
            chk.ob("O4", site, good, "the request and the encrypt offsets of _create_request are forwarded" if good else f"_send_pdu receives pdu={req!r}, encrypt_offsets={eo!r}: not the pair built by _create_request")
            rt = sp[0].arg(1)
            okt = getattr(rt, "name", None) == "Response" or "Response" in repr(rt)
            chk.ob("O4", site, okt, "expects a Response PDU" if okt else f"expects {rt!r}")


def _tuple_elem(v: t.Any, rec: t.Any, i: int) -> bool:
    from sa.sym import Unknown

    return isinstance(v, Unknown) and v.what.endswith(f"[{i}]") and repr(rec.result) in v.what or getattr(v, "_elem_of", None) == (rec, i)


# ------------------------------------------------------------------------- O5
def no_swallow(repo: Repo, chk: Check, rule: str, modules: t.Sequence[str]) -> None:
    """No handler in the region catches a verification failure and then continues normally."""
    allowed = {("_rpc._client.SyncRpcClient.close", "OSError")}
    count = 0
    for f in repo.funcs.values():
        if f.mod.name not in modules:
            continue
        for n in body_nodes(f.node):
            if isinstance(n, ast.Try):
                for h in n.handlers:
                    count += 1
                    typ = unparse(h.type) if h.type is not None else "BaseException"
                    reraises = any(isinstance(x, ast.Raise) for s in h.body for x in ast.walk(s))
                    ok = (f.qual, typ) in allowed or reraises
                    chk.ob(rule, Site.of(f, h, f"except {typ}"), ok, "handler re-raises or is the reviewed socket shutdown handler" if ok else f"'except {typ}' in {f.qual} continues normally: a failure of the security context or of a validation can be swallowed")
    chk.count("exception handlers", count)
    chk.ob(rule, Site("src/dpapi_ng", "region " + ",".join(modules), 0, "exception handlers in region"), True, f"{count} handler(s) inspected")
