"""C06 - emitted blobs are canonical CMS in Windows' layout; encode/decode are inverse."""

from __future__ import annotations

import ast
import typing as t

from sa.asn1shape import Item, ReaderShape, WriterShape
from sa.flow import ReachingDefs
from sa.load import AnalysisError, Cls, Func, Repo, body_nodes, unparse
from sa.report import Check, Site
from sa.symeval import parse_type

CMS = ["_pkcs7.ContentInfo", "_pkcs7.EnvelopedData", "_pkcs7.KEKRecipientInfo", "_pkcs7.KEKIdentifier", "_pkcs7.OtherKeyAttribute", "_pkcs7.EncryptedContentInfo", "_pkcs7.AlgorithmIdentifier"]

# RFC 5652 section 3, 6.1, 6.2.3, 10.2.7; RFC 5084 3.2; one hand-read NCryptProtectSecret blob (tests/data/dpapi_ng_blob)
REF = {
    "enveloped_data_oid": "1.2.840.113549.1.7.3",
    "data_oid": "1.2.840.113549.1.7.1",
    "enveloped_version": 2,
    "kek_choice": 2,
    "kek_version": 4,
    "key_attr_oid": "1.3.6.1.4.1.311.74.1",
    "aes256_wrap": "2.16.840.1.101.3.4.1.45",
    "aes256_gcm": "2.16.840.1.101.3.4.1.46",
    "gcm_icv_len": 16,
    "sid_descriptor_oid": "1.3.6.1.4.1.311.74.1.1",
}


def run(repo: Repo, chk: Check) -> None:
    chk.scope_decides = (
        "O1 for the 7 CMS classes and ProtectionDescriptor the ordered TLV shape written by pack equals the shape read by unpack (type, tag "
        "class/number, constructed bit, optional markers, nesting, field correspondence) and no decoded field is altered after it was read; "
        "the binary KeyIdentifier table agrees with its reader and the reference; O2 the constants emitted = the constants validated = the "
        "RFC 5652/5084 + Windows reference (versions 2 and 4, one KEK recipient [2], content types, key attribute OID, AES256 wrap/GCM OIDs, GCM "
        "parameters SEQUENCE{OCTET STRING nonce, INTEGER 16}); O3 DER discipline of the TLV writer (definite minimal lengths, identifier forms) "
        "and raw insertions only of bytes produced by this package's writer; O4 both layouts: content omitted from the envelope exactly when it "
        "trails it, and the reader takes the trailing bytes exactly when the envelope has none."
    )
    chk.scope_not = "acceptance by an independent strict DER parser for all values and byte identity of re-encoding as numerical facts."
    chk.trusted = ["reference constants transcribed from RFC 5652, RFC 5084 and a Windows blob", "C07 obligations for the TLV primitives"]
    for q in CMS:
        shape_agreement(repo, chk, repo.cls(q))
    protection_descriptor(repo, chk)
    recipient_dispatch(repo, chk)
    constants(repo, chk)
    layouts(repo, chk)
    from . import codecs
    from .c07 import header_writer
    from .c11 import _reference as c11_reference

    header_writer(repo, chk)
    codecs.plain(repo, chk, "O1", "_blob.KeyIdentifier")
    c11_reference(repo, chk)
    chk.require_min("shape pairs", 8)


def _ctor_fields(repo: Repo, f: Func, cls: Cls) -> t.Dict[str, str]:
    """constructor keyword -> local variable in the reader's return."""
    out: t.Dict[str, str] = {}
    for r in [n for n in body_nodes(f.node) if isinstance(n, ast.Return)]:
        v = r.value
        if isinstance(v, ast.Call) and unparse(v.func) in (cls.name, "cls"):
            params = [p.name for p in cls.init_params()]
            for p, a in zip(params, v.args):
                out[p] = unparse(a)
            for k in v.keywords:
                if k.arg:
                    out[k.arg] = unparse(k.value)
    return out


def _compare(chk: Check, cls: Cls, fw: Func, fr: Func, w: t.List[Item], r: t.List[Item], ctor: t.Dict[str, str], repo: Repo, path: str = "", in_repeat: bool = False) -> None:
    if len(w) != len(r):
        chk.ob("O1", Site.of(fw, construct=f"{cls.name}{path}: number of items"), False, f"pack writes {len(w)} item(s) {[i.kind for i in w]} where unpack reads {len(r)} {[i.kind for i in r]}")
        return
    for i, (a, b) in enumerate(zip(w, r)):
        where = f"{cls.name}{path}[{i}]"
        site = Site.of(fr, b.node, None) if b.node is not None else Site.of(fr, construct=where)
        if a.kind != b.kind:
            chk.ob("O1", site, False, f"{where}: pack writes {a.kind} ({a.field}) but unpack reads {b.kind} ({b.field})")
            continue
        if a.tag is not None and b.tag is not None and b.tag != "from-header" and a.tag != b.tag:
            chk.ob("O1", site, False, f"{where}: tag differs: written {a.tag}, expected by the reader {b.tag}")
            continue
        if bool(a.optional) != bool(b.optional):
            chk.ob("O1", site, False, f"{where}: {'written conditionally (' + str(a.optional) + ') but always read' if a.optional else 'always written but read conditionally (' + str(b.optional) + ')'}")
            continue
        if a.kind in ("seq", "set", "repeat"):
            _compare(chk, cls, fw, fr, a.children, b.children, ctor, repo, f"{path}[{i}]", in_repeat or a.kind == "repeat")
            if a.kind != "repeat":
                continue
        if in_repeat:
            continue  # element variables of a loop: the list correspondence is checked at the repeat item
        # field correspondence: writer self.F  <->  reader variable v  <->  constructor F=v
        if a.kind == "repeat":
            wf = a.field or ""
            inner = b.children[0].field if b.children else None
            lists = [k for k, v in ctor.items() if f"self.{k}" == wf]
            appended = {unparse(n.func.value) for n in body_nodes(fr.node) if isinstance(n, ast.Call) and isinstance(n.func, ast.Attribute) and n.func.attr == "append" and n.args and unparse(n.args[0]) == inner}  # type: ignore[attr-defined]
            okf = bool(lists) and ctor.get(lists[0]) in appended
            chk.ob("O1", site, okf, f"{where}: elements of {wf} in order" if okf else f"{where}: repeated {wf} has no counterpart in the constructed object")
            del inner
            continue
        wf = (a.field or "").replace("self.", "", 1)
        got = ctor.get(wf)
        okf = got == b.field
        chk.ob("O1", site, okf, f"{where}: {a.kind} {a.tag or ''} <-> field {wf}" if okf else f"{where}: pack writes self.{wf} here, unpack stores what it reads here ({b.field}) as {[k for k, v in ctor.items() if v == b.field] or 'nothing'}")
        if a.kind == "nested" and b.cls:
            fld = cls.field(wf)
            ty = parse_type(repo, fld.ann, repo.classes[fld.owner].mod) if fld is not None else ("any",)
            inner = ty[1] if ty[0] == "opt" else ty
            okc = inner[0] == "cls" and inner[1].name == b.cls
            chk.ob("O1", site, okc, f"{where}: nested {b.cls}" if okc else f"{where}: field {wf} is a {inner[1].name if inner[0] == 'cls' else inner} but is decoded with {b.cls}.unpack")


def shape_agreement(repo: Repo, chk: Check, cls: Cls) -> None:
    fw, fr = cls.methods.get("pack"), cls.methods.get("unpack")
    if fw is None or fr is None:
        raise AnalysisError(f"{cls.qual}: pack/unpack pair vanished")
    chk.analysed(fw, fr)
    chk.count("shape pairs")
    w = WriterShape(repo, fw).extract(fw.params[1])
    rs = ReaderShape(repo, fr)
    r = rs.extract(None, fr.params[1])
    if not r and hasattr(rs, "root_list"):
        r = rs.root_list
    # a reader given the peeked header validates the header's own tag
    for it in r:
        call = it.node
        if isinstance(call, ast.Call) and any(k.arg == "header" for k in call.keywords) and not any(k.arg == "tag" for k in call.keywords) and cls.name == "KEKRecipientInfo":
            it.tag = "from-header"  # type: ignore[assignment]
    chk.table(f"{cls.name} shape", [i.describe() for i in w])
    ctor = _ctor_fields(repo, fr, cls)
    _compare(chk, cls, fw, fr, w, r, ctor, repo)
    for name, stmt in rs.assigned_after_read:
        chk.ob("O1", Site.of(fr, stmt), False, f"{cls.name}.unpack changes '{name}' after reading it: decode(encode(x)) no longer returns the value that was encoded")
    # every init field is produced
    missing = [p.name for p in cls.init_params() if p.name not in ctor and p.default is None]
    chk.ob("O1", Site.of(fr, construct=f"{cls.name}.unpack sets every field"), not missing, "all fields set" if not missing else f"fields {missing} are not set by unpack")


def protection_descriptor(repo: Repo, chk: Check) -> None:
    cls = repo.cls("_blob.ProtectionDescriptor")
    fw, fr = cls.methods["pack"], cls.methods["unpack"]
    chk.analysed(fw, fr)
    chk.count("shape pairs")
    ws = WriterShape(repo, fw)
    # writer = ASN1Writer() assigned locally
    local = [n for n in body_nodes(fw.node) if isinstance(n, ast.Assign) and unparse(n.value) == "ASN1Writer()"]
    if not local:
        raise AnalysisError("ProtectionDescriptor.pack: local writer vanished")
    w = ws.extract(unparse(local[0].targets[0]))
    rs = ReaderShape(repo, fr)
    rs.extract(None, "<none>")
    r = getattr(rs, "root_list", [])
    wsig = [i.sig(False) for i in w]
    rsig = [i.sig(False) for i in r]
    ok = wsig == rsig
    chk.ob("O1", Site.of(fr, construct="ProtectionDescriptor shape"), ok, "SEQUENCE{OID, SEQUENCE{SEQUENCE{SEQUENCE{UTF8 type, UTF8 value}}}} on both sides" if ok else f"ProtectionDescriptor shapes differ: written {[i.describe() for i in w]} read {[i.describe() for i in r]}")
    # value correspondence
    txt = unparse(fw.node)
    okv = "write_object_identifier(self.type.value)" in txt and "write_utf8_string(self.type.name)" in txt and "write_utf8_string(self.value)" in txt
    chk.ob("O1", Site.of(fw, construct="ProtectionDescriptor values"), okv, "OID = type OID, strings = type name then value")
    rtxt = unparse(fr.node)
    okr = "content_type == ProtectionDescriptorType.SID.value and value_type == 'SID'" in rtxt and "return SIDDescriptor(value)" in rtxt
    chk.ob("O1", Site.of(fr, construct="ProtectionDescriptor dispatch"), okr, "SID descriptors are rebuilt from the value string; others are rejected")
    okf, v = repo.try_fold(ast.parse("ProtectionDescriptorType.SID.value", mode="eval").body, cls.mod)
    chk.ob("O2", Site.of(fr, construct="SID descriptor OID"), okf and v == REF["sid_descriptor_oid"], f"SID descriptor OID {v}")
    rets = [n for n in body_nodes(fw.node) if isinstance(n, ast.Return)]
    chk.ob("O3", Site.of(fw, rets[0] if rets else None, None if rets else "return"), len(rets) == 1 and unparse(rets[0].value) == f"{unparse(local[0].targets[0])}.get_data()", "returns the root writer's bytes")


def recipient_dispatch(repo: Repo, chk: Check) -> None:
    f = repo.method("_pkcs7.RecipientInfo", "unpack")
    chk.analysed(f)
    txt = unparse(f.node)
    ok = "tag.tag_class == TagClass.CONTEXT_SPECIFIC and tag.tag_number == KEKRecipientInfo.choice" in txt and "return KEKRecipientInfo.unpack(reader, header=header)" in txt and "header = reader.peek_header()" in txt
    chk.ob("O1", Site.of(f, construct="RecipientInfo choice dispatch"), ok, "kekri [2] is dispatched to KEKRecipientInfo with the peeked header" if ok else "the RecipientInfo CHOICE is not dispatched on context tag = KEKRecipientInfo.choice")
    rais = [n for n in body_nodes(f.node) if isinstance(n, ast.Raise)]
    chk.ob("O1", Site.of(f, construct="other choices rejected"), bool(rais), "other recipient kinds raise NotImplementedError")


def _kw(call: ast.Call, cls: Cls) -> t.Dict[str, ast.expr]:
    out = {k.arg: k.value for k in call.keywords if k.arg}
    for p, a in zip([x.name for x in cls.init_params()], call.args):
        out.setdefault(p, a)
    return out


def constants(repo: Repo, chk: Check) -> None:
    blob = repo.cls("_blob.DPAPINGBlob")
    fp, fu = blob.methods["pack"], blob.methods["unpack"]
    chk.analysed(fp, fu)

    def fold(e: t.Optional[ast.expr], f: Func) -> t.Any:
        okf, v = repo.try_fold(e, f.mod)
        return getattr(v, "value", v) if okf else None

    def ctor(name: str) -> ast.Call:
        c = [n for n in body_nodes(fp.node) if isinstance(n, ast.Call) and unparse(n.func) == name]
        if len(c) != 1:
            raise AnalysisError(f"DPAPINGBlob.pack: {name}(...) construction changed")
        return c[0]

    # ---- emitted
    ri = _kw(ctor("KEKRecipientInfo"), repo.cls("_pkcs7.KEKRecipientInfo"))
    ed = _kw(ctor("EnvelopedData"), repo.cls("_pkcs7.EnvelopedData"))
    ci = _kw(ctor("ContentInfo"), repo.cls("_pkcs7.ContentInfo"))
    eci = _kw(ctor("EncryptedContentInfo"), repo.cls("_pkcs7.EncryptedContentInfo"))
    oka = _kw(ctor("OtherKeyAttribute"), repo.cls("_pkcs7.OtherKeyAttribute"))
    kid = _kw(ctor("KEKIdentifier"), repo.cls("_pkcs7.KEKIdentifier"))
    emitted = {
        "kek_version": fold(ri.get("version"), fp),
        "enveloped_version": fold(ed.get("version"), fp),
        "enveloped_data_oid": fold(ci.get("content_type"), fp),
        "data_oid": fold(eci.get("content_type"), fp),
        "key_attr_oid": fold(oka.get("key_attr_id"), fp),
    }
    kcls = repo.cls("_pkcs7.KEKRecipientInfo")
    ch = kcls.field("choice")
    emitted["kek_choice"] = fold(ch.default, kcls.methods["pack"]) if ch is not None else None
    site = Site.of(fp, construct="emitted CMS constants")
    for k, v in emitted.items():
        chk.count("constants")
        chk.ob("O2", Site.of(fp, construct=f"emitted {k}"), v == REF[k], f"{k} = {v}" if v == REF[k] else f"pack emits {k} = {v!r}, the reference layout has {REF[k]!r}")
    one = isinstance(ed.get("recipient_infos"), ast.List) and len(ed["recipient_infos"].elts) == 1 and unparse(ed["recipient_infos"].elts[0]) == "recipient_info"  # type: ignore[union-attr]
    chk.ob("O2", site, bool(one), "exactly one recipient info" if one else f"recipient_infos is {unparse(ed.get('recipient_infos'))}")
    okk = unparse(kid.get("key_identifier")) == "self.key_identifier.pack()" and unparse(oka.get("key_attr")) == "self.protection_descriptor.pack()" and "date" not in kid
    chk.ob("O2", site, okk, "KEK id = packed key identifier, attribute = packed protection descriptor, no date" if okk else "KEKIdentifier is not (key identifier bytes, no date, protection descriptor attribute)")
    # algorithm identifiers carry the blob's fields
    algs = sorted([n for n in body_nodes(fp.node) if isinstance(n, ast.Call) and unparse(n.func) == "AlgorithmIdentifier"], key=lambda n: n.lineno)
    acls = repo.cls("_pkcs7.AlgorithmIdentifier")
    got = [[unparse(v) for v in _kw(a, acls).values()] for a in algs]
    okal = got == [["self.enc_cek_algorithm", "self.enc_cek_parameters"], ["self.enc_content_algorithm", "self.enc_content_parameters"]]
    chk.ob("O2", site, okal, "key-encryption and content-encryption algorithm identifiers carry the blob's own fields" if okal else f"algorithm identifiers are built from {got}")
    okek = unparse(ri.get("encrypted_key")) == "self.enc_cek"
    chk.ob("O2", site, okek, "encryptedKey = wrapped CEK")
    # ---- validated by unpack (must equal what pack emits)
    utxt = unparse(fu.node)
    validated = {
        "enveloped_data_oid": "content_info.content_type != EnvelopedData.CONTENT_TYPE_ENVELOPED_DATA_OID" in utxt,
        "enveloped_version": "enveloped_data.version != 2" in utxt,
        "one recipient": "len(enveloped_data.recipient_infos) != 1" in utxt,
        "kek recipient": "not isinstance(enveloped_data.recipient_infos[0], KEKRecipientInfo)" in utxt,
        "kek_version": "enveloped_data.recipient_infos[0].version != 4" in utxt,
        "key_attr_oid": "kek_info.kekid.other.key_attr_id != DPAPINGBlob.MICROSOFT_SOFTWARE_OID" in utxt,
    }
    for k, v in validated.items():
        chk.ob("O2", Site.of(fu, construct=f"validated {k}"), v, f"unpack validates {k}" if v else f"unpack no longer validates {k}: a blob this library would never emit is accepted")
    ev = repo.method("_pkcs7.EnvelopedData", "unpack")
    okev = "if version != 2:" in unparse(ev.node)
    chk.ob("O2", Site.of(ev, construct="EnvelopedData version"), okev, "EnvelopedData.unpack requires version 2")
    # ---- what _encrypt_blob puts into those fields
    eb = repo.func("_client._encrypt_blob")
    chk.analysed(eb)
    rd = ReachingDefs(eb)
    bc = [n for n in body_nodes(eb.node) if isinstance(n, ast.Call) and unparse(n.func) == "DPAPINGBlob"]
    if len(bc) != 1:
        raise AnalysisError("_encrypt_blob: DPAPINGBlob construction changed")
    kws = {k.arg: k.value for k in bc[0].keywords if k.arg}

    def origin_const(name: str) -> t.Any:
        e = kws.get(name)
        if isinstance(e, ast.Name):
            d = rd.single_def(e.id, bc[0])
            if d is not None and d.value is not None:
                return fold(d.value, eb)
        return fold(e, eb)

    for field, ref in (("enc_cek_algorithm", "aes256_wrap"), ("enc_content_algorithm", "aes256_gcm")):
        v = origin_const(field)
        chk.count("constants")
        chk.ob("O2", Site.of(eb, bc[0], f"DPAPINGBlob({field}=...)"), v == REF[ref], f"{field} = {v}" if v == REF[ref] else f"{field} is {v!r}, expected {REF[ref]!r}")
    v = origin_const("enc_cek_parameters")
    chk.ob("O2", Site.of(eb, bc[0], "DPAPINGBlob(enc_cek_parameters=...)"), v is None and "enc_cek_parameters" in kws, "AES key wrap carries no parameters")
    # GCM parameters SEQUENCE { OCTET STRING nonce, INTEGER 16 }
    local = [n for n in body_nodes(eb.node) if isinstance(n, ast.Assign) and unparse(n.value) == "ASN1Writer()"]
    if local:
        ws = WriterShape(repo, eb)
        # only the with-block of the parameters writer
        name = unparse(local[0].targets[0])
        ws.writers[name] = []
        for s in eb.node.body:
            if isinstance(s, ast.With):
                ws.block([s], None)
        shape = ws.writers[name]
        ok = len(shape) == 1 and shape[0].kind == "seq" and shape[0].tag == ("UNIVERSAL", 16, True) and [c.kind for c in shape[0].children] == ["prim:octet_string", "prim:integer"] and all(c.tag in (("UNIVERSAL", 4, False), ("UNIVERSAL", 2, False)) for c in shape[0].children)
        icv = fold(ast.parse(shape[0].children[1].field or "None", mode="eval").body, eb) if ok else None
        ok = ok and icv == REF["gcm_icv_len"]
        chk.ob("O2", Site.of(eb, shape[0].node if shape else None, None if shape else "GCM parameters"), bool(ok), "GCMParameters = SEQUENCE{OCTET STRING nonce, INTEGER 16}" if ok else f"GCM parameters are {[i.describe() for i in shape]} (RFC 5084: SEQUENCE{{aes-nonce OCTET STRING, aes-ICVlen INTEGER}}, Windows uses 16)")
        d = rd.single_def(unparse(kws.get("enc_content_parameters")), bc[0]) if isinstance(kws.get("enc_content_parameters"), ast.Name) else None
        okp = d is not None and d.value is not None and unparse(d.value) == f"{name}.get_data()"
        chk.ob("O3", Site.of(eb, bc[0], "raw parameters provenance"), okp, "the raw parameters inserted into the AlgorithmIdentifier were produced by this package's DER writer" if okp else "enc_content_parameters does not come from the package's own ASN1Writer")
    else:
        chk.ob("O2", Site.of(eb, construct="GCM parameters"), False, "the GCM parameters are not built with the package's ASN1Writer")
    rets = [n for n in body_nodes(eb.node) if isinstance(n, ast.Return)]
    okr = len(rets) == 1 and isinstance(rets[0].value, ast.Call) and unparse(rets[0].value.func).endswith(".pack") and rets[0].value.func.value is bc[0] and not rets[0].value.args and not rets[0].value.keywords  # type: ignore[union-attr]
    chk.ob("O2", Site.of(eb, rets[0] if rets else None, None if rets else "return"), okr, "emits the default (in-envelope) layout")
    chk.require_min("constants", 8)


def layouts(repo: Repo, chk: Check) -> None:
    blob = repo.cls("_blob.DPAPINGBlob")
    fp, fu = blob.methods["pack"], blob.methods["unpack"]
    ecic = [n for n in body_nodes(fp.node) if isinstance(n, ast.Call) and unparse(n.func) == "EncryptedContentInfo"]
    kws = {k.arg: k.value for k in ecic[0].keywords if k.arg} if ecic else {}
    c = kws.get("content")
    ok = isinstance(c, ast.IfExp) and unparse(c.test) == "blob_in_envelope" and unparse(c.body) == "self.enc_content" and unparse(c.orelse) == "b''"
    chk.ob("O4", Site.of(fp, c if c is not None else None, None if c is not None else "content placement"), ok, "content inside the envelope iff blob_in_envelope" if ok else f"EncryptedContentInfo.content is {unparse(c) if c is not None else 'missing'}")
    rets = [n for n in body_nodes(fp.node) if isinstance(n, ast.Return)]
    okt = False
    if len(rets) == 1 and isinstance(rets[0].value, ast.Call) and unparse(rets[0].value.func) == "b''.join" and isinstance(rets[0].value.args[0], ast.List):
        el = rets[0].value.args[0].elts
        okt = len(el) == 2 and unparse(el[0]) == "writer.get_data()" and isinstance(el[1], ast.IfExp) and unparse(el[1].test) == "blob_in_envelope" and unparse(el[1].body) == "b''" and unparse(el[1].orelse) == "self.enc_content"
    chk.ob("O4", Site.of(fp, rets[0] if rets else None, None if rets else "return"), okt, "content trails the ContentInfo iff not blob_in_envelope" if okt else "the trailing layout is not 'ContentInfo || enc_content' exactly when the content is not in the envelope")
    # the element is omitted (not written empty) when there is no content
    ew = repo.method("_pkcs7.EncryptedContentInfo", "pack")
    w = WriterShape(repo, ew).extract(ew.params[1])
    opt = [i for i in (w[0].children if w else []) if i.kind == "prim:octet_string"]
    oko = len(opt) == 1 and opt[0].optional == "self.content"
    chk.ob("O4", Site.of(ew, opt[0].node if opt else None, None if opt else "encryptedContent"), oko, "encryptedContent [0] is omitted when the content is empty (DER OPTIONAL absent)" if oko else f"encryptedContent is written when '{opt[0].optional if opt else '?'}': with the trailing layout an empty [0] element is emitted and shadows the trailing ciphertext")
    # unpack: slice at the end of the outer TLV, fall back to the trailing bytes when the envelope has no content
    utxt = unparse(fu.node)
    ok1 = "remaining_data = view[header.tag_length + header.length:]" in utxt and "ContentInfo.unpack(view[:header.tag_length + header.length], header=header)" in utxt and "header = ASN1Reader(view).peek_header()" in utxt
    chk.ob("O4", Site.of(fu, construct="outer TLV boundary"), ok1, "trailing data starts at tag_length + length of the outer TLV" if ok1 else "the boundary between the ContentInfo and the trailing ciphertext is not header.tag_length + header.length")
    asg = [n for n in body_nodes(fu.node) if isinstance(n, ast.Assign) and unparse(n.targets[0]) == "enc_content"]
    ok2 = len(asg) == 1 and isinstance(asg[0].value, ast.BoolOp) and isinstance(asg[0].value.op, ast.Or) and unparse(asg[0].value.values[0]) == "enveloped_data.encrypted_content_info.content" and unparse(asg[0].value.values[1]) == "remaining_data.tobytes()"
    chk.ob("O4", Site.of(fu, asg[0] if asg else None, None if asg else "enc_content"), ok2, "content = envelope content, else the trailing bytes (empty counts as absent)" if ok2 else f"enc_content is '{unparse(asg[0].value) if asg else '?'}': the trailing ciphertext must be used whenever the envelope carries no (or empty) content")
    # ContentInfo / EnvelopedData nesting in pack
    ptxt = unparse(fp.node)
    ok3 = "enveloped_data.pack(writer)" in ptxt and "content=writer.get_data()" in ptxt and "content_info.pack(writer)" in ptxt
    chk.ob("O3", Site.of(fp, construct="nesting"), ok3, "EnvelopedData DER becomes ContentInfo.content")
    ok4 = "EnvelopedData.unpack(content_info.content)" in utxt and "KeyIdentifier.unpack(kek_info.kekid.key_identifier)" in utxt and "ProtectionDescriptor.unpack(kek_info.kekid.other.key_attr or b'')" in utxt
    chk.ob("O1", Site.of(fu, construct="inverse nesting"), ok4, "unpack decodes the same nesting")
    # returned fields
    rets = [n for n in body_nodes(fu.node) if isinstance(n, ast.Return)]
    want = {
        "key_identifier": "key_identifier",
        "protection_descriptor": "protection_descriptor",
        "enc_cek": "kek_info.encrypted_key",
        "enc_cek_algorithm": "kek_info.key_encryption_algorithm.algorithm",
        "enc_cek_parameters": "kek_info.key_encryption_algorithm.parameters",
        "enc_content": "enc_content",
        "enc_content_algorithm": "enveloped_data.encrypted_content_info.algorithm.algorithm",
        "enc_content_parameters": "enveloped_data.encrypted_content_info.algorithm.parameters",
    }
    got = {k.arg: unparse(k.value) for k in rets[0].value.keywords} if rets and isinstance(rets[0].value, ast.Call) else {}
    chk.ob("O1", Site.of(fu, rets[0] if rets else None, None if rets else "return"), got == want, "every blob field is taken from the position pack wrote it to" if got == want else f"DPAPINGBlob fields are rebuilt from {got}")
