"""C06 - emitted blobs are canonical CMS in Windows' layout; encode/decode are inverse."""

from __future__ import annotations

import ast
import typing as t

from sa.asn1shape import Item, ReaderShape, WriterShape
from sa.flow import ReachingDefs
from sa.load import AnalysisError, Cls, Func, Repo, body_nodes, unparse
from sa.report import Check, Site
from sa.pathsum import Summary
from sa.symeval import parse_type

from .util import args_of, ev_args, recv_of

CMS = ["_pkcs7.ContentInfo", "_pkcs7.EnvelopedData", "_pkcs7.KEKRecipientInfo", "_pkcs7.KEKIdentifier", "_pkcs7.OtherKeyAttribute", "_pkcs7.EncryptedContentInfo", "_pkcs7.AlgorithmIdentifier"]

# RFC 5652 section 3, 6.1, 6.2.3, 10.2.7; RFC 5084 3.2; one hand-read NCryptProtectSecret blob (tests/data/dpapi_ng_blob)
REF = {
    "enveloped_data_oid": "1.2.840.113549.1.7.3",
    "data_oid": "1.2.840.113549.1.7.1",
    "enveloped_version": 2,
    "kek_choice": 2,
    "kek_version": 4,
    "key_attr_oid": "1.3.6.1.4.1.311.74.1",
    "aes256_wrap": "2.16.840.1.101.3.4.1.45",
    "aes256_gcm": "2.16.840.1.101.3.4.1.46",
    "gcm_icv_len": 16,
    "sid_descriptor_oid": "1.3.6.1.4.1.311.74.1.1",
}


def run(repo: Repo, chk: Check) -> None:
    chk.scope_decides = (
        "O1 for the 7 CMS classes and ProtectionDescriptor the ordered TLV shape written by pack equals the shape read by unpack (type, tag "
        "class/number, constructed bit, optional markers, nesting, field correspondence), no decoded field is altered after it was read, no "
        "element is read and thrown away, and an optional element is read under presence tests only (reader non-empty / tag of the peeked header); "
        "the binary KeyIdentifier table agrees with its reader and the reference; O2 the constants emitted = the constants validated = the "
        "RFC 5652/5084 + Windows reference (versions 2 and 4, one KEK recipient [2], content types, key attribute OID, AES256 wrap/GCM OIDs, GCM "
        "parameters SEQUENCE{OCTET STRING nonce, INTEGER 16}); O3 DER discipline of the TLV writer (definite minimal lengths, identifier forms) "
        "and raw insertions only of bytes produced by this package's writer; O4 both layouts: content omitted from the envelope exactly when it "
        "trails it, and the reader takes the trailing bytes exactly when the envelope has none."
    )
    chk.scope_not = "acceptance by an independent strict DER parser for all values and byte identity of re-encoding as numerical facts."
    chk.trusted = ["reference constants transcribed from RFC 5652, RFC 5084 and a Windows blob", "C07 obligations for the TLV primitives"]
    for q in CMS:
        shape_agreement(repo, chk, repo.cls(q))
    protection_descriptor(repo, chk)
    recipient_dispatch(repo, chk)
    constants(repo, chk)
    layouts(repo, chk)
    from . import codecs
    from .c07 import header_writer
    from .c11 import _reference as c11_reference

    header_writer(repo, chk)
    codecs.plain(repo, chk, "O1", "_blob.KeyIdentifier")
    c11_reference(repo, chk)
    chk.require_min("shape pairs", 8)


def _ctor_fields(repo: Repo, f: Func, cls: Cls, node: t.Optional[ast.AST] = None) -> t.Dict[str, str]:
    """constructor keyword -> local variable in the reader's return."""
    out: t.Dict[str, str] = {}
    for r in [n for n in body_nodes(t.cast(t.Any, node if node is not None else f.node)) if isinstance(n, ast.Return)]:
        v = r.value
        if isinstance(v, ast.Call) and unparse(v.func) in (cls.name, "cls"):
            params = [p.name for p in cls.init_params()]
            for p, a in zip(params, v.args):
                out[p] = unparse(a)
            for k in v.keywords:
                if k.arg:
                    out[k.arg] = unparse(k.value)
    return out


def _compare(chk: Check, cls: Cls, fw: Func, fr: Func, w: t.List[Item], r: t.List[Item], ctor: t.Dict[str, str], repo: Repo, path: str = "", in_repeat: bool = False) -> None:
    if len(w) != len(r):
        chk.ob("O1", Site.of(fw, construct=f"{cls.name}{path}: number of items"), False, f"pack writes {len(w)} item(s) {[i.kind for i in w]} where unpack reads {len(r)} {[i.kind for i in r]}")
        return
    for i, (a, b) in enumerate(zip(w, r)):
        where = f"{cls.name}{path}[{i}]"
        site = Site.of(fr, b.node, None) if b.node is not None else Site.of(fr, construct=where)
        if a.kind != b.kind:
            chk.ob("O1", site, False, f"{where}: pack writes {a.kind} ({a.field}) but unpack reads {b.kind} ({b.field})")
            continue
        if a.tag is not None and b.tag is not None and b.tag != "from-header" and a.tag != b.tag:
            chk.ob("O1", site, False, f"{where}: tag differs: written {a.tag}, expected by the reader {b.tag}")
            continue
        if bool(a.optional) != bool(b.optional):
            chk.ob("O1", site, False, f"{where}: {'written conditionally (' + str(a.optional) + ') but always read' if a.optional else 'always written but read conditionally (' + str(b.optional) + ')'}")
            continue
        if b.optional:
            bad = _not_presence_tests(b.tests, getattr(chk, "_rs_readers", set()), getattr(chk, "_rs_headers", set()))
            chk.ob("O1", site, not bad, f"{where}: read exactly when an element is present" if not bad else f"{where}: unpack reads {b.field} only when '{bad}' holds as well: a value that pack writes can fail that test, so decode(encode(x)) loses or changes it")
        if a.kind in ("seq", "set", "repeat"):
            _compare(chk, cls, fw, fr, a.children, b.children, ctor, repo, f"{path}[{i}]", in_repeat or a.kind == "repeat")
            if a.kind != "repeat":
                continue
        if in_repeat:
            continue  # element variables of a loop: the list correspondence is checked at the repeat item
        # field correspondence: writer self.F  <->  reader variable v  <->  constructor F=v
        if a.kind == "repeat":
            wf = a.field or ""
            inner = b.children[0].field if b.children else None
            lists = [k for k, v in ctor.items() if f"self.{k}" == wf]
            appended = {unparse(n.func.value) for n in body_nodes(t.cast(t.Any, getattr(chk, "_rs_node", None) or fr.node)) if isinstance(n, ast.Call) and isinstance(n.func, ast.Attribute) and n.func.attr == "append" and n.args and unparse(n.args[0]) == inner}  # type: ignore[attr-defined]
            okf = bool(lists) and ctor.get(lists[0]) in appended
            chk.ob("O1", site, okf, f"{where}: elements of {wf} in order" if okf else f"{where}: repeated {wf} has no counterpart in the constructed object")
            del inner
            continue
        wf = (a.field or "").replace("self.", "", 1)
        got = ctor.get(wf)
        okf = got == b.field
        chk.ob("O1", site, okf, f"{where}: {a.kind} {a.tag or ''} <-> field {wf}" if okf else f"{where}: pack writes self.{wf} here, unpack stores what it reads here ({b.field}) as {[k for k, v in ctor.items() if v == b.field] or 'nothing'}")
        if a.kind == "nested" and b.cls:
            fld = cls.field(wf)
            ty = parse_type(repo, fld.ann, repo.classes[fld.owner].mod) if fld is not None else ("any",)
            inner = ty[1] if ty[0] == "opt" else ty
            okc = inner[0] == "cls" and inner[1].name == b.cls
            chk.ob("O1", site, okc, f"{where}: nested {b.cls}" if okc else f"{where}: field {wf} is a {inner[1].name if inner[0] == 'cls' else inner} but is decoded with {b.cls}.unpack")


def _not_presence_tests(tests: t.List[t.Tuple[ast.expr, bool]], readers: t.Set[str], headers: t.Set[str]) -> t.Optional[str]:
    """The conditions under which an optional element is read may only ask whether an element is there and which tag it
    has: `reader` (non empty), `<peeked header>.tag ... == ...`.  Returns the text of the first other conjunct."""
    from sa.pathsum import canon_test

    def bad(e: ast.expr, pol: bool) -> t.Optional[str]:
        e, pol = canon_test(e, pol)
        if isinstance(e, ast.BoolOp) and (isinstance(e.op, ast.And) and pol or isinstance(e.op, ast.Or) and not pol):
            for v in e.values:
                r = bad(v, pol)
                if r:
                    return r
            return None
        if isinstance(e, ast.Name) and e.id in readers and pol:
            return None
        if isinstance(e, ast.Compare) and len(e.ops) == 1 and (isinstance(e.ops[0], (ast.Eq, ast.Is)) and pol or isinstance(e.ops[0], (ast.NotEq, ast.IsNot)) and not pol):
            for side in (e.left, e.comparators[0]):
                txt = unparse(side)
                if any(txt == f"{h}.tag" or txt.startswith(f"{h}.tag.") for h in headers):
                    return None
        if isinstance(e, ast.Compare) and len(e.ops) == 1 and isinstance(e.left, ast.Call) and unparse(e.left.func) == "len" and e.left.args and unparse(e.left.args[0]) in readers:
            return None  # len(reader) > 0 style emptiness test
        if pol and isinstance(e, ast.Call) and unparse(e.func) == "isinstance" and len(e.args) == 2 and unparse(e.args[1]) == "ASN1Tag" and any(unparse(e.args[0]) == f"{h}.tag" for h in headers):
            return None  # the tag of a peeked header is an ASN1Tag by construction (class pattern `case ASN1Tag(...)`): no test of the value
        return ("" if pol else "not ") + unparse(e)

    for e, pol in tests:
        r = bad(e, pol)
        if r:
            return r
    return None


def shape_agreement(repo: Repo, chk: Check, cls: Cls) -> None:
    fw, fr = cls.methods.get("pack"), cls.methods.get("unpack")
    if fw is None or fr is None:
        raise AnalysisError(f"{cls.qual}: pack/unpack pair vanished")
    chk.analysed(fw, fr)
    chk.count("shape pairs")
    w = WriterShape(repo, fw).extract(fw.params[1])
    rs = ReaderShape(repo, fr)
    r = rs.extract(None, fr.params[1])
    if not r and hasattr(rs, "root_list"):
        r = rs.root_list
    # a reader given the peeked header validates the header's own tag
    for it in r:
        call = it.node
        if isinstance(call, ast.Call) and any(k.arg == "header" for k in call.keywords) and not any(k.arg == "tag" for k in call.keywords) and cls.name == "KEKRecipientInfo":
            it.tag = "from-header"  # type: ignore[assignment]
    chk.table(f"{cls.name} shape", [i.describe() for i in w])
    ctor = _ctor_fields(repo, fr, cls, rs.node)
    ctor = {k: rs.aliases.get(v, v) for k, v in ctor.items()}
    chk._rs_node = rs.node  # type: ignore[attr-defined]
    chk._rs_readers = {k for k in rs.readers if k.isidentifier()}  # type: ignore[attr-defined]
    chk._rs_headers = set(rs.header_tests)  # type: ignore[attr-defined]
    _compare(chk, cls, fw, fr, w, r, ctor, repo)
    for name, stmt in rs.assigned_after_read:
        chk.ob("O1", Site.of(fr, stmt), False, f"{cls.name}.unpack changes '{name}' after reading it: decode(encode(x)) no longer returns the value that was encoded")
    # every init field is produced
    missing = [p.name for p in cls.init_params() if p.name not in ctor and p.default is None]
    chk.ob("O1", Site.of(fr, construct=f"{cls.name}.unpack sets every field"), not missing, "all fields set" if not missing else f"fields {missing} are not set by unpack")


def protection_descriptor(repo: Repo, chk: Check) -> None:
    cls = repo.cls("_blob.ProtectionDescriptor")
    fw, fr = cls.methods["pack"], cls.methods["unpack"]
    chk.analysed(fw, fr)
    chk.count("shape pairs")
    ws = WriterShape(repo, fw)
    # writer = ASN1Writer() assigned locally
    local = [n for n in body_nodes(fw.node) if isinstance(n, ast.Assign) and unparse(n.value) == "ASN1Writer()"]
    if not local:
        raise AnalysisError("ProtectionDescriptor.pack: local writer vanished")
    w = ws.extract(unparse(local[0].targets[0]))
    rs = ReaderShape(repo, fr)
    rs.extract(None, "<none>")
    r = getattr(rs, "root_list", [])
    wsig = [i.sig(False) for i in w]
    rsig = [i.sig(False) for i in r]
    ok = wsig == rsig
    chk.ob("O1", Site.of(fr, construct="ProtectionDescriptor shape"), ok, "SEQUENCE{OID, SEQUENCE{SEQUENCE{SEQUENCE{UTF8 type, UTF8 value}}}} on both sides" if ok else f"ProtectionDescriptor shapes differ: written {[i.describe() for i in w]} read {[i.describe() for i in r]}")
    # value correspondence (path summaries: independent of local names and guard style)
    sw = Summary(fw, ["self"])
    for ps in sw.returning():
        oid = [ps.text(a) for c in ps.calls("write_object_identifier") for a in t.cast(ast.Call, c.tree).args]
        strs = [ps.text(a) for c in ps.calls("write_utf8_string") for a in t.cast(ast.Call, c.tree).args]
        okv = oid == ["self.type.value"] and strs == ["self.type.name", "self.value"]
        chk.ob("O1", Site.of(fw, construct="ProtectionDescriptor values"), okv, "OID = type OID, strings = type name then value" if okv else f"pack writes OID {oid} and strings {strs}, expected [self.type.value] and [self.type.name, self.value]")
        v = ps.value
        okr = isinstance(v, ast.Call) and isinstance(v.func, ast.Attribute) and v.func.attr == "get_data" and ps.text(v.func.value) == "ASN1Writer()" and any(ps.key(recv_of(t.cast(ast.Call, c.tree))) == ps.key(v.func.value) for c in ps.calls("push_sequence"))
        chk.ob("O3", Site.of(fw, ps.exit_node, None if ps.exit_node is not None else "return"), bool(okr), "returns the root writer's bytes")
    sr = Summary(fr, ["cls", "data"])
    nret = 0
    for ps in sr.returning():
        nret += 1
        oids, strs = ps.calls("read_object_identifier"), ps.calls("read_utf8_string")
        if len(oids) != 1 or len(strs) != 2:
            chk.ob("O1", Site.of(fr, construct="ProtectionDescriptor dispatch"), False, "unpack no longer reads one OID and two strings")
            continue
        abbr = {"OID": oids[0].tree, "TYPE": strs[0].tree, "VALUE": strs[1].tree}
        eqc = ps.eq_consts(repo, abbr)
        okr = eqc.get("OID") == REF["sid_descriptor_oid"] and eqc.get("TYPE") == "SID" and ps.short(ps.value, abbr) == "SIDDescriptor(VALUE)"
        chk.ob("O1", Site.of(fr, ps.exit_node, "ProtectionDescriptor dispatch"), okr, "SID descriptors are rebuilt from the value string; others are rejected" if okr else f"unpack returns {ps.short(ps.value, abbr)} under {eqc}: only OID {REF['sid_descriptor_oid']} with type 'SID' may become SIDDescriptor(value read)")
    chk.ob("O1", Site.of(fr, construct="ProtectionDescriptor dispatch"), nret >= 1 and bool(sr.raising()), "other descriptor types are rejected")
    okf, v = repo.try_fold(ast.parse("ProtectionDescriptorType.SID.value", mode="eval").body, cls.mod)
    chk.ob("O2", Site.of(fr, construct="SID descriptor OID"), okf and v == REF["sid_descriptor_oid"], f"SID descriptor OID {v}")


def recipient_dispatch(repo: Repo, chk: Check) -> None:
    f = repo.method("_pkcs7.RecipientInfo", "unpack")
    chk.analysed(f)
    summ = Summary(f, ["cls", "reader"])
    n = 0
    for ps in summ.returning():
        n += 1
        peek = [c for c in ps.calls("peek_header") if ps.text(recv_of(t.cast(ast.Call, c.tree))) == "reader"]
        site = Site.of(f, ps.exit_node, "RecipientInfo choice dispatch")
        if not peek:
            chk.ob("O1", site, False, "the RecipientInfo CHOICE is not dispatched on the peeked header")
            continue
        abbr = {"H": peek[0].tree}
        eqc = ps.eq_consts(repo, abbr)
        cls_ok = eqc.get("H.tag.tag_class") == 2 and eqc.get("H.tag.tag_number") == REF["kek_choice"]
        v = ps.value
        a = args_of(repo, f, v) if isinstance(v, ast.Call) else {}
        ret_ok = isinstance(v, ast.Call) and ps.text(v.func) == "KEKRecipientInfo.unpack" and ps.text(a.get("reader")) == "reader" and a.get("header") is not None and ps.key(a["header"]) == ps.key(peek[0].tree)
        ok = cls_ok and ret_ok
        chk.ob("O1", site, bool(ok), "kekri [2] is dispatched to KEKRecipientInfo with the peeked header" if ok else f"the RecipientInfo CHOICE is not dispatched on context tag = KEKRecipientInfo.choice (tests: {eqc}; returns {ps.short(v, abbr)})")
    chk.ob("O1", Site.of(f, construct="RecipientInfo choice dispatch"), n >= 1, f"{n} dispatching path(s)")
    chk.ob("O1", Site.of(f, construct="other choices rejected"), bool(summ.raising()), "other recipient kinds raise NotImplementedError")


def _kw(call: ast.Call, cls: Cls) -> t.Dict[str, ast.expr]:
    out = {k.arg: k.value for k in call.keywords if k.arg}
    for p, a in zip([x.name for x in cls.init_params()], call.args):
        out.setdefault(p, a)
    return out


def constants(repo: Repo, chk: Check) -> None:
    blob = repo.cls("_blob.DPAPINGBlob")
    fp, fu = blob.methods["pack"], blob.methods["unpack"]
    chk.analysed(fp, fu)

    def foldv(e: t.Optional[ast.expr], f: Func) -> t.Any:
        okf, v = repo.try_fold(e, f.mod)
        return getattr(v, "value", v) if okf else None

    # ---- emitted
    sp = Summary(fp, ["self", "blob_in_envelope"])
    if not sp.returning():
        raise AnalysisError("DPAPINGBlob.pack: no returning path")
    for ps in sp.returning():
        def ctor(name: str) -> ast.Call:
            c = ps.calls(name)
            c = [x for x in c if ps.text(t.cast(ast.Call, x.tree).func) == name]
            if len(c) != 1:
                raise AnalysisError(f"DPAPINGBlob.pack: {name}(...) construction changed")
            return t.cast(ast.Call, c[0].tree)

        ri = _kw(ctor("KEKRecipientInfo"), repo.cls("_pkcs7.KEKRecipientInfo"))
        ed = _kw(ctor("EnvelopedData"), repo.cls("_pkcs7.EnvelopedData"))
        ci = _kw(ctor("ContentInfo"), repo.cls("_pkcs7.ContentInfo"))
        eci = _kw(ctor("EncryptedContentInfo"), repo.cls("_pkcs7.EncryptedContentInfo"))
        oka = _kw(ctor("OtherKeyAttribute"), repo.cls("_pkcs7.OtherKeyAttribute"))
        kid = _kw(ctor("KEKIdentifier"), repo.cls("_pkcs7.KEKIdentifier"))
        emitted = {
            "kek_version": foldv(ri.get("version"), fp),
            "enveloped_version": foldv(ed.get("version"), fp),
            "enveloped_data_oid": foldv(ci.get("content_type"), fp),
            "data_oid": foldv(eci.get("content_type"), fp),
            "key_attr_oid": foldv(oka.get("key_attr_id"), fp),
        }
        kcls = repo.cls("_pkcs7.KEKRecipientInfo")
        ch = kcls.field("choice")
        emitted["kek_choice"] = foldv(ch.default, kcls.methods["pack"]) if ch is not None else None
        site = Site.of(fp, construct="emitted CMS constants")
        for k, v in emitted.items():
            chk.count("constants")
            chk.ob("O2", Site.of(fp, construct=f"emitted {k}"), v == REF[k], f"{k} = {v}" if v == REF[k] else f"pack emits {k} = {v!r}, the reference layout has {REF[k]!r}")
        rl = ed.get("recipient_infos")
        one = isinstance(rl, (ast.List, ast.Tuple)) and len(rl.elts) == 1 and ps.key(rl.elts[0]) == ps.key(ctor("KEKRecipientInfo"))
        chk.ob("O2", site, bool(one), "exactly one recipient info" if one else f"recipient_infos is {ps.text(rl)[:120]}")
        okk = ps.text(kid.get("key_identifier")) == "self.key_identifier.pack()" and ps.text(oka.get("key_attr")) == "self.protection_descriptor.pack()" and (kid.get("date") is None or ps.text(kid.get("date")) == "None") and kid.get("other") is not None and ps.key(kid["other"]) == ps.key(ctor("OtherKeyAttribute")) and ri.get("kekid") is not None and ps.key(ri["kekid"]) == ps.key(ctor("KEKIdentifier"))
        chk.ob("O2", site, okk, "KEK id = packed key identifier, attribute = packed protection descriptor, no date" if okk else "KEKIdentifier is not (key identifier bytes, no date, protection descriptor attribute)")
        # algorithm identifiers carry the blob's fields
        acls = repo.cls("_pkcs7.AlgorithmIdentifier")

        def alg(e: t.Optional[ast.expr]) -> t.List[str]:
            if isinstance(e, ast.Call) and ps.text(e.func) == "AlgorithmIdentifier":
                kw = _kw(e, acls)
                return [ps.text(kw.get("algorithm")), ps.text(kw.get("parameters"))]
            return [ps.text(e)]

        got = [alg(ri.get("key_encryption_algorithm")), alg(eci.get("algorithm"))]
        okal = got == [["self.enc_cek_algorithm", "self.enc_cek_parameters"], ["self.enc_content_algorithm", "self.enc_content_parameters"]]
        chk.ob("O2", site, okal, "key-encryption and content-encryption algorithm identifiers carry the blob's own fields" if okal else f"algorithm identifiers are built from {got}")
        okek = ps.text(ri.get("encrypted_key")) == "self.enc_cek"
        chk.ob("O2", site, okek, "encryptedKey = wrapped CEK")
        okeci = ed.get("encrypted_content_info") is not None and ps.key(ed["encrypted_content_info"]) == ps.key(ctor("EncryptedContentInfo"))
        chk.ob("O2", site, okeci, "the EnvelopedData carries that EncryptedContentInfo")
    # ---- validated by unpack (must equal what pack emits)
    su = Summary(fu, ["cls", "data"])
    if not su.returning():
        raise AnalysisError("DPAPINGBlob.unpack: no returning path")
    for ps in su.returning():
        cis, eds = ps.calls("ContentInfo.unpack"), ps.calls("EnvelopedData.unpack")
        if len(cis) != 1 or len(eds) != 1:
            raise AnalysisError("DPAPINGBlob.unpack: ContentInfo / EnvelopedData decoding changed")
        abbr = {"CI": cis[0].tree, "ED": eds[0].tree}
        eqc = ps.eq_consts(repo, abbr)
        facts = ps.facts(abbr=abbr)
        validated = {
            "enveloped_data_oid": eqc.get("CI.content_type") == REF["enveloped_data_oid"],
            "enveloped_version": eqc.get("ED.version") == REF["enveloped_version"],
            "one recipient": eqc.get("len(ED.recipient_infos)") == 1,
            "kek recipient": "isinstance(ED.recipient_infos[0], KEKRecipientInfo)" in facts,
            "kek_version": eqc.get("ED.recipient_infos[0].version") == REF["kek_version"],
            "key_attr_oid": eqc.get("ED.recipient_infos[0].kekid.other.key_attr_id") == REF["key_attr_oid"],
        }
        for k, v in validated.items():
            chk.ob("O2", Site.of(fu, construct=f"validated {k}"), v, f"unpack validates {k}" if v else f"unpack no longer validates {k}: a blob this library would never emit is accepted")
    ev = repo.method("_pkcs7.EnvelopedData", "unpack")
    okev = True
    sev = Summary(ev)
    for ps in sev.returning():
        ri_ = [c for c in ps.calls("read_integer")]
        eqc = ps.eq_consts(repo, {"VERSION": ri_[0].tree} if ri_ else {})
        okev = okev and eqc.get("VERSION") == REF["enveloped_version"]
    chk.ob("O2", Site.of(ev, construct="EnvelopedData version"), okev and bool(sev.returning()), "EnvelopedData.unpack requires version 2")
    # ---- what _encrypt_blob puts into those fields
    eb = repo.func("_client._encrypt_blob")
    chk.analysed(eb)
    seb = Summary(eb, ["blob", "key", "protection_descriptor"])
    for ps in seb.returning():
        bc = [c for c in ps.calls("DPAPINGBlob") if ps.text(t.cast(ast.Call, c.tree).func) == "DPAPINGBlob"]
        if len(bc) != 1:
            raise AnalysisError("_encrypt_blob: DPAPINGBlob construction changed")
        kws = _kw(t.cast(ast.Call, bc[0].tree), blob)
        for field, ref in (("enc_cek_algorithm", "aes256_wrap"), ("enc_content_algorithm", "aes256_gcm")):
            v = foldv(kws.get(field), eb)
            chk.count("constants")
            chk.ob("O2", Site.of(eb, bc[0].node, f"DPAPINGBlob({field}=...)"), v == REF[ref], f"{field} = {v}" if v == REF[ref] else f"{field} is {v!r}, expected {REF[ref]!r}")
        v = foldv(kws.get("enc_cek_parameters"), eb)
        chk.ob("O2", Site.of(eb, bc[0].node, "DPAPINGBlob(enc_cek_parameters=...)"), v is None and "enc_cek_parameters" in kws and ps.text(kws["enc_cek_parameters"]) == "None", "AES key wrap carries no parameters")
        okp = ps.text(kws.get("enc_content_parameters")) == "ASN1Writer().get_data()"
        chk.ob("O3", Site.of(eb, bc[0].node, "raw parameters provenance"), okp, "the raw parameters inserted into the AlgorithmIdentifier were produced by this package's DER writer" if okp else "enc_content_parameters does not come from the package's own ASN1Writer")
        v2 = ps.value
        okr = isinstance(v2, ast.Call) and isinstance(v2.func, ast.Attribute) and v2.func.attr == "pack" and ps.key(v2.func.value) == ps.key(bc[0].tree) and not v2.args and not v2.keywords
        chk.ob("O2", Site.of(eb, ps.exit_node, None if ps.exit_node is not None else "return"), okr, "emits the default (in-envelope) layout")
    # GCM parameters SEQUENCE { OCTET STRING nonce, INTEGER 16 }
    local = [n for n in body_nodes(eb.node) if isinstance(n, ast.Assign) and unparse(n.value) == "ASN1Writer()"]
    if local:
        ws = WriterShape(repo, eb)
        # only the with-block of the parameters writer
        name = unparse(local[0].targets[0])
        ws.writers[name] = []
        for s in eb.node.body:
            if isinstance(s, ast.With):
                ws.block([s], None)
        shape = ws.writers[name]
        ok = len(shape) == 1 and shape[0].kind == "seq" and shape[0].tag == ("UNIVERSAL", 16, True) and [c.kind for c in shape[0].children] == ["prim:octet_string", "prim:integer"] and all(c.tag in (("UNIVERSAL", 4, False), ("UNIVERSAL", 2, False)) for c in shape[0].children)
        icv = foldv(ast.parse(shape[0].children[1].field or "None", mode="eval").body, eb) if ok else None
        ok = ok and icv == REF["gcm_icv_len"]
        chk.ob("O2", Site.of(eb, shape[0].node if shape else None, None if shape else "GCM parameters"), bool(ok), "GCMParameters = SEQUENCE{OCTET STRING nonce, INTEGER 16}" if ok else f"GCM parameters are {[i.describe() for i in shape]} (RFC 5084: SEQUENCE{{aes-nonce OCTET STRING, aes-ICVlen INTEGER}}, Windows uses 16)")
    else:
        chk.ob("O2", Site.of(eb, construct="GCM parameters"), False, "the GCM parameters are not built with the package's ASN1Writer")
    chk.require_min("constants", 8)


def layouts(repo: Repo, chk: Check) -> None:
    blob = repo.cls("_blob.DPAPINGBlob")
    fp, fu = blob.methods["pack"], blob.methods["unpack"]
    sp = Summary(fp, ["self", "blob_in_envelope"])
    seen = set()
    for ps in sp.returning():
        facts = ps.facts()
        inside = "blob_in_envelope" in facts
        outside = "not (blob_in_envelope)" in facts
        site = Site.of(fp, ps.exit_node, None if ps.exit_node is not None else "return")
        if inside == outside:
            chk.ob("O4", site, False, "a returning path of pack does not depend on blob_in_envelope: the two layouts are not told apart")
            continue
        seen.add(inside)
        ecic = [c for c in ps.calls("EncryptedContentInfo") if ps.text(t.cast(ast.Call, c.tree).func) == "EncryptedContentInfo"]
        c = _kw(t.cast(ast.Call, ecic[0].tree), repo.cls("_pkcs7.EncryptedContentInfo")).get("content") if len(ecic) == 1 else None
        want_c = "self.enc_content" if inside else "b''"
        ok = c is not None and ps.text(c) == want_c
        chk.ob("O4", Site.of(fp, ecic[0].node if ecic else None, "content placement"), ok, "content inside the envelope iff blob_in_envelope" if ok else f"EncryptedContentInfo.content is {ps.text(c) if c is not None else 'missing'} when blob_in_envelope is {inside}")
        v = ps.value
        okt = False
        el: t.List[ast.expr] = []
        if isinstance(v, ast.Call) and unparse(v.func) == "b''.join" and v.args and isinstance(v.args[0], (ast.List, ast.Tuple)):
            el = list(v.args[0].elts)
        elif isinstance(v, ast.BinOp) and isinstance(v.op, ast.Add):
            el = [v.left, v.right]
        # nesting: EnvelopedData DER -> ContentInfo.content -> ContentInfo DER first in the output
        packs = ps.calls("pack")
        edp = [p for p in packs if ps.text(recv_of(t.cast(ast.Call, p.tree)))[:14] == "EnvelopedData(" and t.cast(ast.Call, p.tree).args]
        cip = [p for p in packs if ps.text(recv_of(t.cast(ast.Call, p.tree)))[:12] == "ContentInfo(" and t.cast(ast.Call, p.tree).args]
        ok3 = False
        if len(edp) == 1 and len(cip) == 1:
            w1, w2 = t.cast(ast.Call, edp[0].tree).args[0], t.cast(ast.Call, cip[0].tree).args[0]
            civ = recv_of(t.cast(ast.Call, cip[0].tree))
            cikw = _kw(t.cast(ast.Call, civ), repo.cls("_pkcs7.ContentInfo")) if isinstance(civ, ast.Call) else {}
            cc = cikw.get("content")
            ok3 = ps.text(w1) == "ASN1Writer()" and ps.text(w2) == "ASN1Writer()" and ps.key(w1) != ps.key(w2) and cc is not None and ps.key(cc) == f"{ps.key(w1)}.get_data#{getattr(cc, '_uid', 0)}()"
            from .util import concat_parts

            el = [x for x in concat_parts(v) if not (isinstance(x, ast.Constant) and x.value == b"")]
            if len(el) == 1 and inside:
                el = el + [ast.Constant(value=b"")]  # nothing trails the ContentInfo
            elif len(el) == 1:
                el = []
            if len(el) == 2:
                e0 = el[0]
                while isinstance(e0, ast.Call) and isinstance(e0.func, ast.Name) and e0.func.id in ("bytes", "bytearray") and len(e0.args) == 1 and not e0.keywords:
                    e0 = e0.args[0]  # bytes(x) of a bytes-like x is x
                okt = isinstance(e0, ast.Call) and isinstance(e0.func, ast.Attribute) and e0.func.attr == "get_data" and ps.key(e0.func.value) == ps.key(w2) and ps.text(el[1]) == ("b''" if inside else "self.enc_content")
        chk.ob("O3", Site.of(fp, construct="nesting"), ok3, "EnvelopedData DER (own writer) becomes ContentInfo.content, ContentInfo is written with a fresh writer")
        chk.ob("O4", site, okt, "content trails the ContentInfo iff not blob_in_envelope" if okt else f"the trailing layout is not 'ContentInfo || enc_content' exactly when the content is not in the envelope (returns {ps.text(v)[:100]} when blob_in_envelope is {inside})")
    chk.ob("O4", Site.of(fp, construct="both layouts"), seen == {True, False}, "pack has the in-envelope and the trailing layout" if seen == {True, False} else "pack no longer offers both layouts")
    # the element is omitted (not written empty) when there is no content
    ew = repo.method("_pkcs7.EncryptedContentInfo", "pack")
    w = WriterShape(repo, ew).extract(ew.params[1])
    opt = [i for i in (w[0].children if w else []) if i.kind == "prim:octet_string"]
    oko = len(opt) == 1 and opt[0].optional == "self.content"
    chk.ob("O4", Site.of(ew, opt[0].node if opt else None, None if opt else "encryptedContent"), oko, "encryptedContent [0] is omitted when the content is empty (DER OPTIONAL absent)" if oko else f"encryptedContent is written when '{opt[0].optional if opt else '?'}': with the trailing layout an empty [0] element is emitted and shadows the trailing ciphertext")
    # unpack: slice at the end of the outer TLV, fall back to the trailing bytes when the envelope has no content
    su = Summary(fu, ["cls", "data"])
    for ps in su.returning():
        peek = [c for c in ps.calls("peek_header") if ps.text(recv_of(t.cast(ast.Call, c.tree))) == "ASN1Reader(memoryview(data))"]
        cis, eds = ps.calls("ContentInfo.unpack"), ps.calls("EnvelopedData.unpack")
        kis, pds = ps.calls("KeyIdentifier.unpack"), ps.calls("ProtectionDescriptor.unpack")
        if not (len(peek) >= 1 and len(cis) == 1 and len(eds) == 1 and len(kis) == 1 and len(pds) == 1):
            chk.ob("O4", Site.of(fu, construct="outer TLV boundary"), False, "the boundary between the ContentInfo and the trailing ciphertext is not header.tag_length + header.length of the peeked outer header")
            continue
        abbr: t.Dict[str, ast.AST] = {"H": peek[0].tree}
        cia = ev_args(repo, fu, cis[0])
        first = next(iter(cia.values()), None)
        ok1 = first is not None and ps.short(first, abbr) in ("memoryview(data)[:H.tag_length + H.length]", "memoryview(data)[:H.length + H.tag_length]") and cia.get("header") is not None and ps.key(cia["header"]) == ps.key(peek[0].tree)
        abbr.update({"CI": cis[0].tree, "ED": eds[0].tree, "KI": kis[0].tree, "PD": pds[0].tree})
        v = ps.value
        kws = _kw(v, blob) if isinstance(v, ast.Call) and ps.text(v.func) in ("DPAPINGBlob", "cls") else {}
        got = {k: ps.short(x, abbr) for k, x in kws.items()}
        encc = got.get("enc_content", "")
        A_ = "ED.encrypted_content_info.content"
        B_ = ("memoryview(data)[H.tag_length + H.length:].tobytes()", "memoryview(data)[H.length + H.tag_length:].tobytes()")
        decided = [pol for e, pol in ps.atoms() if ps.short(e, abbr) == A_]
        # `A or B` in one expression, or the same choice made by a branch: A on the path where A is non-empty, B where it is empty
        ok2 = encc in tuple(f"{A_} or {b_}" for b_ in B_) or (decided == [True] and encc == A_) or (decided == [False] and encc in B_)
        chk.ob("O4", Site.of(fu, cis[0].node, "outer TLV boundary"), bool(ok1) and ("H.tag_length" in encc or (decided == [True] and encc == A_)), "trailing data starts at tag_length + length of the outer TLV" if ok1 else "the boundary between the ContentInfo and the trailing ciphertext is not header.tag_length + header.length")
        chk.ob("O4", Site.of(fu, ps.exit_node, "enc_content"), ok2, "content = envelope content, else the trailing bytes (empty counts as absent)" if ok2 else f"enc_content is '{encc}': the trailing ciphertext must be used whenever the envelope carries no (or empty) content")
        a_ed = [ps.short(x, abbr) for x in t.cast(ast.Call, eds[0].tree).args]
        a_ki = [ps.short(x, abbr) for x in t.cast(ast.Call, kis[0].tree).args]
        a_pd = [ps.short(x, abbr) for x in t.cast(ast.Call, pds[0].tree).args]
        ok4 = a_ed == ["CI.content"] and a_ki == ["ED.recipient_infos[0].kekid.key_identifier"] and a_pd == ["ED.recipient_infos[0].kekid.other.key_attr or b''"]
        chk.ob("O1", Site.of(fu, construct="inverse nesting"), ok4, "unpack decodes the same nesting" if ok4 else f"unpack decodes EnvelopedData from {a_ed}, KeyIdentifier from {a_ki}, ProtectionDescriptor from {a_pd}")
        want = {
            "key_identifier": "KI",
            "protection_descriptor": "PD",
            "enc_cek": "ED.recipient_infos[0].encrypted_key",
            "enc_cek_algorithm": "ED.recipient_infos[0].key_encryption_algorithm.algorithm",
            "enc_cek_parameters": "ED.recipient_infos[0].key_encryption_algorithm.parameters",
            "enc_content_algorithm": "ED.encrypted_content_info.algorithm.algorithm",
            "enc_content_parameters": "ED.encrypted_content_info.algorithm.parameters",
        }
        bad = {k: got.get(k) for k, w_ in want.items() if got.get(k) != w_}
        chk.ob("O1", Site.of(fu, ps.exit_node, None if ps.exit_node is not None else "return"), not bad, "every blob field is taken from the position pack wrote it to" if not bad else f"DPAPINGBlob fields are rebuilt from {bad}")
