"""C04 - a modified blob never decrypts to different plaintext."""

from __future__ import annotations

import ast
import typing as t

from sa.cfg import build
from sa.flow import ReachingDefs
from sa.intervals import World
from sa.load import AnalysisError, Func, Repo, body_nodes, unparse
from sa.report import Check, Site

from .c03 import argmap, calls, expect


def run(repo: Repo, chk: Check) -> None:
    chk.scope_decides = (
        "that the code hands the primitives exactly the right things and never bypasses or swallows their verdict: O1 the data argument of "
        "AESGCM.decrypt is the whole enc_content of the blob and of aes_key_unwrap the whole enc_cek, with no slicing or alternative decryption "
        "path; O2 no handler in the decrypt region continues after a failure; O3 every return of the unprotect functions is the AESGCM.decrypt "
        "result (no early return of other bytes); O4 every key-identifier field (L0, L1, L2, root key id, key_info, flags) and the protection "
        "descriptor is used on the path that produces the KEK, and the nonce comes from the blob's own parameters."
    )
    chk.scope_not = "cryptographic strength of AES-GCM / AES-KW; that every bit of the blob is covered (version, names, date influence nothing by design)."
    chk.trusted = ["cryptography: AESGCM.decrypt raises InvalidTag unless the tag verifies over the whole ciphertext; aes_key_unwrap raises InvalidUnwrap on a bad integrity check"]
    primitives(repo, chk)
    returns(repo, chk)
    binding(repo, chk)
    region_handlers(repo, chk)


def primitives(repo: Repo, chk: Check) -> None:
    cd = repo.func("_crypto.content_decrypt")
    kd = repo.func("_crypto.cek_decrypt")
    chk.analysed(cd, kd)
    rd = ReachingDefs(cd)
    dec = [n for n in body_nodes(cd.node) if isinstance(n, ast.Call) and isinstance(n.func, ast.Attribute) and n.func.attr == "decrypt"]
    if len(dec) != 1:
        chk.ob("O1", Site.of(cd, construct="AESGCM.decrypt call"), False, f"content_decrypt has {len(dec)} decrypt calls: there must be exactly one verified decryption")
        return
    d = dec[0]
    ciph = rd.single_def(unparse(d.func.value), d) if isinstance(d.func.value, ast.Name) else None  # type: ignore[attr-defined]
    okc = ciph is not None and ciph.value is not None and unparse(ciph.value) == f"AESGCM({cd.params[2]})"
    chk.ob("O1", Site.of(cd, d), okc, "cipher = AESGCM(cek)" if okc else "the decrypting object is not AESGCM(<cek parameter>)")
    a = [unparse(x) for x in d.args]
    oka = len(a) == 3 and a[1] == cd.params[3] and a[2] == "None"
    chk.ob("O1", Site.of(cd, d), oka, "the whole value (ciphertext || tag) is verified and decrypted, no associated data" if oka else f"decrypt arguments are {a}: the data must be the unmodified '{cd.params[3]}' parameter")
    iv = rd.single_def(a[0], d) if len(a) == 3 else None
    okn = iv is not None and iv.value is not None and unparse(iv.value) == "reader.read_octet_string()"
    rdr = rd.single_def("reader", d)
    okn = okn and rdr is not None and rdr.value is not None and unparse(rdr.value) == f"ASN1Reader({cd.params[1]}).read_sequence()"
    chk.ob("O4", Site.of(cd, d), bool(okn), "nonce = first OCTET STRING of the blob's GCM parameters" if okn else "the nonce is not read from the parameters handed in")
    # every return on the GCM branch is that call's result
    for r in [n for n in body_nodes(cd.node) if isinstance(n, ast.Return)]:
        ok = r.value is d
        chk.ob("O3", Site.of(cd, r), ok, "returns the verified plaintext" if ok else f"content_decrypt returns '{unparse(r.value)[:60]}', which is not the result of the single AESGCM.decrypt call: plaintext can be produced without the tag being checked")
    g = build(cd.node)
    nid = rd.node_of(d)
    gs = g.guards_of(nid) if nid is not None else []
    okb = any(isinstance(c, ast.Compare) and unparse(c) == f"{cd.params[0]} == AlgorithmOID.AES256_GCM" and pol for c, pol in gs)
    chk.ob("O1", Site.of(cd, construct="algorithm dispatch"), okb, "only under the AES256-GCM OID")
    # other ciphers anywhere in _crypto's decrypt functions
    for f in (cd, kd):
        for n in body_nodes(f.node):
            if isinstance(n, ast.Call):
                dn = repo.dotted(n.func, f.mod)
                if any(x in dn for x in ("Cipher", "modes.", "algorithms.", ".update", ".finalize", "decryptor")):
                    chk.ob("O1", Site.of(f, n), False, f"{dn}: a second, hand-rolled decryption path next to the one-shot AEAD call (streaming APIs release plaintext before the tag is verified)")
    un = [n for n in body_nodes(kd.node) if isinstance(n, ast.Call) and repo.dotted(n.func, kd.mod).endswith("keywrap.aes_key_unwrap")]
    oku = len(un) == 1 and [unparse(x) for x in un[0].args] == [kd.params[2], kd.params[3]]
    chk.ob("O1", Site.of(kd, un[0] if un else None, None if un else "aes_key_unwrap"), oku, "CEK = aes_key_unwrap(kek, whole wrapped key)" if oku else "cek_decrypt does not unwrap the whole value with the KEK")
    for r in [n for n in body_nodes(kd.node) if isinstance(n, ast.Return)]:
        chk.ob("O3", Site.of(kd, r), bool(un) and r.value is un[0], "returns the unwrapped key")
    # _decrypt_blob wiring
    db = repo.func("_client._decrypt_blob")
    chk.analysed(db)
    c1, c2 = calls(db, "cek_decrypt"), calls(db, "content_decrypt")
    if len(c1) != 1 or len(c2) != 1:
        raise AnalysisError("_decrypt_blob: call sites changed")
    expect(chk, "O1", db, c1[0], argmap(repo, c1[0], kd), {"algorithm": "blob.enc_cek_algorithm", "parameters": "blob.enc_cek_parameters", "kek": "kek", "value": "blob.enc_cek"}, "unwrap of the blob's wrapped CEK")
    expect(chk, "O1", db, c2[0], argmap(repo, c2[0], cd), {"algorithm": "blob.enc_content_algorithm", "parameters": "blob.enc_content_parameters", "cek": "cek", "value": "blob.enc_content"}, "decryption of the blob's content")
    rdb = ReachingDefs(db)
    dk = rdb.single_def("cek", c2[0])
    chk.ob("O1", Site.of(db, c2[0]), dk is not None and dk.value is c1[0], "content key = the unwrapped CEK")
    kk = rdb.single_def("kek", c1[0])
    okk = kk is not None and kk.value is not None and unparse(kk.value) == "key.get_kek(blob.key_identifier)"
    chk.ob("O4", Site.of(db, c1[0]), okk, "KEK derived from the blob's key identifier" if okk else "the KEK is not key.get_kek(blob.key_identifier)")
    for r in [n for n in body_nodes(db.node) if isinstance(n, ast.Return)]:
        ok = r.value is c2[0]
        chk.ob("O3", Site.of(db, r), ok, "returns the verified plaintext" if ok else f"_decrypt_blob returns '{unparse(r.value)[:50]}' without authenticated decryption")


def returns(repo: Repo, chk: Check) -> None:
    for q in ("_client.ncrypt_unprotect_secret", "_client.async_ncrypt_unprotect_secret"):
        f = repo.func(q)
        chk.analysed(f)
        n = 0
        for r in [x for x in body_nodes(f.node) if isinstance(x, ast.Return)]:
            n += 1
            ok = isinstance(r.value, ast.Call) and unparse(r.value.func) == "_decrypt_blob" and [unparse(a) for a in r.value.args] == ["blob", "rk"]
            chk.ob("O3", Site.of(f, r), ok, "returns _decrypt_blob(blob, rk)" if ok else f"{f.name} returns '{unparse(r.value)[:60]}': bytes that did not come out of the authenticated decryption of the parsed blob")
        chk.ob("O3", Site.of(f, construct="single result path"), n >= 1, f"{n} return(s)")
        rd = ReachingDefs(f)
        rets = [x for x in body_nodes(f.node) if isinstance(x, ast.Return)]
        b = rd.single_def("blob", rets[-1]) if rets else None
        okb = b is not None and b.value is not None and unparse(b.value) == f"DPAPINGBlob.unpack({f.params[0]})"
        chk.ob("O1", Site.of(f, construct="blob = DPAPINGBlob.unpack(data)"), okb, "the whole input is parsed as a DPAPI-NG blob")


def binding(repo: Repo, chk: Check) -> None:
    gk = repo.method("_gkdi.GroupKeyEnvelope", "get_kek")
    chk.analysed(gk)
    g = build(gk.node)
    txt = unparse(gk.node)
    uses = {
        "l0": "self.l0 != key_id.l0",
        "l1/l2": "compute_l2_key(hash_algo, key_id.l1, key_id.l2, self)",
        "key_info (nonce mode)": "key_id.key_info, 32)",
        "key_info (public-key mode)": "public_key=key_id.key_info",
        "flags": "if key_id.is_public_key:",
    }
    for what, frag in uses.items():
        chk.ob("O4", Site.of(gk, construct=f"get_kek uses {what}"), frag in txt, f"{what} influences the KEK" if frag in txt else f"get_kek no longer uses the blob's {what}: that field can be altered without the decryption failing")
    # the L0 mismatch raises
    l0 = [n for n in body_nodes(gk.node) if isinstance(n, ast.If) and unparse(n.test) == "self.l0 != key_id.l0"]
    chk.ob("O4", Site.of(gk, l0[0] if l0 else None, None if l0 else "L0 check"), bool(l0) and any(isinstance(x, ast.Raise) for x in l0[0].body), "an envelope for another L0 is rejected")
    pk = [n for n in body_nodes(gk.node) if isinstance(n, ast.If) and unparse(n.test) == "self.is_public_key"]
    chk.ob("O4", Site.of(gk, pk[0] if pk else None, None if pk else "public key envelope"), bool(pk) and any(isinstance(x, ast.Raise) for x in pk[0].body), "a public-key-only envelope cannot decrypt")
    # root key id, position and SD select the seed material (cache lookup and RPC)
    for q, getter in (("_client.ncrypt_unprotect_secret", "_sync_get_key"), ("_client.async_ncrypt_unprotect_secret", "_async_get_key")):
        f = repo.func(q)
        want = ["target_sd", "blob.key_identifier.root_key_identifier", "blob.key_identifier.l0", "blob.key_identifier.l1", "blob.key_identifier.l2"]
        for name in ("cache._get_key", getter):
            cs = calls(f, name)
            a = [unparse(x) for x in cs[0].args] if len(cs) == 1 else []
            a = a[1:] if name == getter else a
            chk.ob("O4", Site.of(f, cs[0] if cs else None, None if cs else name), a[:5] == want, f"{name} selects the key by the blob's SD, root key id and position" if a[:5] == want else f"{name} is called with {a}")
        rd = ReachingDefs(f)
        cs = calls(f, "cache._get_key")
        d = rd.single_def("target_sd", cs[0]) if cs else None
        ok = d is not None and d.value is not None and unparse(d.value) == "blob.protection_descriptor.get_target_sd()"
        chk.ob("O4", Site.of(f, construct="target SD from the blob"), ok, "the SD is built from the blob's protection descriptor")
    del g


def region_handlers(repo: Repo, chk: Check) -> None:
    from .c05 import region

    world = World(repo)
    reg, _ = region(repo, world)
    count = 0
    for q, f in sorted(reg.items()):
        for n in body_nodes(f.node):
            if isinstance(n, ast.Try):
                for h in n.handlers:
                    count += 1
                    reraises = any(isinstance(x, ast.Raise) for s in h.body for x in ast.walk(s))
                    chk.ob("O2", Site.of(f, h, f"except {unparse(h.type) if h.type else ''}"), reraises, "re-raises" if reraises else f"'except {unparse(h.type) if h.type else ''}' in {q} continues normally: InvalidTag / InvalidUnwrap / ValueError can be turned into a result")
            if isinstance(n, ast.With):
                for it in n.items:
                    if "suppress" in unparse(it.context_expr):
                        chk.ob("O2", Site.of(f, n), False, "contextlib.suppress in the decrypt region")
    chk.ob("O2", Site("src/dpapi_ng", "unprotect region", 0, "exception handlers in the decrypt region"), True, f"{len(reg)} functions, {count} handler(s) inspected")
