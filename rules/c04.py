"""C04 - a modified blob never decrypts to different plaintext."""

from __future__ import annotations

import ast
import typing as t

from sa.cfg import build
from sa.flow import ReachingDefs
from sa.intervals import World
from sa.load import AnalysisError, Func, Repo, body_nodes, unparse
from sa.report import Check, Site

from sa.pathsum import Summary

from .c03 import argmap, calls, expect
from .util import args_of, eq_branches, ev_args, recv_of


def run(repo: Repo, chk: Check) -> None:
    chk.scope_decides = (
        "that the code hands the primitives exactly the right things and never bypasses or swallows their verdict: O1 the data argument of "
        "AESGCM.decrypt is the whole enc_content of the blob and of aes_key_unwrap the whole enc_cek, with no slicing or alternative decryption "
        "path; O2 no handler in the decrypt region continues after a failure; O3 every return of the unprotect functions is the AESGCM.decrypt "
        "result (no early return of other bytes); O4 every key-identifier field (L0, L1, L2, root key id, key_info, flags) and the protection "
        "descriptor is used on the path that produces the KEK, and the nonce comes from the blob's own parameters; O5 every loop of the "
        "decrypt region has a termination certificate and the region has no recursion (a modified blob ends in an error or a result)."
    )
    chk.scope_not = "cryptographic strength of AES-GCM / AES-KW; that every bit of the blob is covered (version, names, date influence nothing by design)."
    chk.trusted = ["cryptography: AESGCM.decrypt raises InvalidTag unless the tag verifies over the whole ciphertext; aes_key_unwrap raises InvalidUnwrap on a bad integrity check"]
    primitives(repo, chk)
    returns(repo, chk)
    binding(repo, chk)
    region_handlers(repo, chk)
    # "KEK bound to L0-L2": the seed material the cache hands to get_kek covers the blob's position (C10-O1/O2/O3)
    from .c10 import get_key, store_key

    get_key(repo, chk)
    store_key(repo, chk)
    # "either fails with an error or returns": decoding a modified blob terminates (C05-O2 loop certificates)
    from .c05 import region_terminates

    region_terminates(repo, chk, "O5")
    # "a changed L1 / L2 index is rejected or derives another key": the position named by the blob is range-checked and
    # the chain walks of compute_l2_key are bounded and lead exactly to that position (C02-O1/O2/O3)
    from .c02 import l2_obligations

    l2_obligations(repo, chk)


def primitives(repo: Repo, chk: Check) -> None:
    cd = repo.func("_crypto.content_decrypt")
    kd = repo.func("_crypto.cek_decrypt")
    chk.analysed(cd, kd)
    summ = Summary(cd, ["algorithm", "parameters", "cek", "value"])
    br = eq_branches(summ, "algorithm")
    okb = set(br) == {"AlgorithmOID.AES256_GCM"}
    chk.ob("O1", Site.of(cd, construct="algorithm dispatch"), okb, "only under the AES256-GCM OID" if okb else f"plaintext is returned on paths guarded by {sorted(br)}")
    ndec = 0
    for ps in summ.returning():
        dec = ps.calls("decrypt")
        if len(dec) != 1:
            chk.ob("O1", Site.of(cd, ps.exit_node, None if ps.exit_node is not None else "AESGCM.decrypt call"), False, f"content_decrypt has {len(dec)} decrypt calls on a returning path: there must be exactly one verified decryption")
            continue
        ndec += 1
        d = t.cast(ast.Call, dec[0].tree)
        okc = ps.text(recv_of(d)) == "AESGCM(cek)"
        chk.ob("O1", Site.of(cd, dec[0].node), okc, "cipher = AESGCM(cek)" if okc else f"the decrypting object is {ps.text(recv_of(d))}, not AESGCM(<cek parameter>)")
        da = ev_args(repo, cd, dec[0])
        a = [ps.text(da[k]) for k in ("nonce", "data", "associated_data") if k in da]
        oka = len(a) == 3 and a[1] == "value" and a[2] == "None"
        chk.ob("O1", Site.of(cd, dec[0].node), oka, "the whole value (ciphertext || tag) is verified and decrypted, no associated data" if oka else f"decrypt arguments are {a}: the data must be the unmodified 'value' parameter")
        okn = len(a) == 3 and a[0] == "ASN1Reader(parameters).read_sequence().read_octet_string()"
        chk.ob("O4", Site.of(cd, dec[0].node), bool(okn), "nonce = first OCTET STRING of the blob's GCM parameters" if okn else f"the nonce is {a[0] if a else '?'}, not read from the parameters handed in")
        ok = ps.key(ps.value) == ps.key(d)
        chk.ob("O3", Site.of(cd, ps.exit_node, None if ps.exit_node is not None else "return"), ok, "returns the verified plaintext" if ok else f"content_decrypt returns '{ps.text(ps.value)[:60]}', which is not the result of the single AESGCM.decrypt call: plaintext can be produced without the tag being checked")
    chk.ob("O1", Site.of(cd, construct="AESGCM.decrypt call"), ndec >= 1, f"{ndec} returning path(s) through the verified decryption")
    # other ciphers anywhere in _crypto's decrypt functions
    for f in (cd, kd):
        for n in body_nodes(f.node):
            if isinstance(n, ast.Call):
                dn = repo.dotted(n.func, f.mod)
                if any(x in dn for x in ("Cipher", "modes.", "algorithms.", ".update", ".finalize", "decryptor")):
                    chk.ob("O1", Site.of(f, n), False, f"{dn}: a second, hand-rolled decryption path next to the one-shot AEAD call (streaming APIs release plaintext before the tag is verified)")
    sk = Summary(kd, ["algorithm", "parameters", "kek", "value"])
    for ps in sk.returning():
        un = ps.calls("aes_key_unwrap")
        oku = len(un) == 1 and [ps.text(x) for x in ev_args(repo, kd, un[0]).values()] == ["kek", "value"]
        chk.ob("O1", Site.of(kd, un[0].node if un else None, None if un else "aes_key_unwrap"), oku, "CEK = aes_key_unwrap(kek, whole wrapped key)" if oku else "cek_decrypt does not unwrap the whole value with the KEK")
        chk.ob("O3", Site.of(kd, ps.exit_node, None if ps.exit_node is not None else "return"), bool(un) and ps.key(ps.value) == ps.key(un[0].tree), "returns the unwrapped key")
    # _decrypt_blob wiring
    db = repo.func("_client._decrypt_blob")
    chk.analysed(db)
    sd = Summary(db, ["blob", "key"])
    if not sd.returning():
        raise AnalysisError("_decrypt_blob: no returning path")
    for ps in sd.returning():
        c1, c2 = ps.calls("cek_decrypt"), ps.calls("content_decrypt")
        if len(c1) != 1 or len(c2) != 1:
            chk.ob("O3", Site.of(db, ps.exit_node, None if ps.exit_node is not None else "return"), False, "a returning path of _decrypt_blob does not unwrap the CEK and decrypt the content exactly once")
            continue
        a1 = {k: ps.text(v) for k, v in ev_args(repo, db, c1[0]).items()}
        a2 = {k: ps.text(v) for k, v in ev_args(repo, db, c2[0]).items()}
        expect(chk, "O1", db, t.cast(ast.Call, c1[0].node), a1, {"algorithm": "blob.enc_cek_algorithm", "parameters": "blob.enc_cek_parameters", "value": "blob.enc_cek"}, "unwrap of the blob's wrapped CEK")
        expect(chk, "O1", db, t.cast(ast.Call, c2[0].node), a2, {"algorithm": "blob.enc_content_algorithm", "parameters": "blob.enc_content_parameters", "value": "blob.enc_content"}, "decryption of the blob's content")
        okd = ps.key(ev_args(repo, db, c2[0]).get("cek")) == ps.key(c1[0].tree)
        chk.ob("O1", Site.of(db, c2[0].node), okd, "content key = the unwrapped CEK")
        okk = a1.get("kek") == "key.get_kek(blob.key_identifier)"
        chk.ob("O4", Site.of(db, c1[0].node), okk, "KEK derived from the blob's key identifier" if okk else f"the KEK is {a1.get('kek')}, not key.get_kek(blob.key_identifier)")
        ok = ps.key(ps.value) == ps.key(c2[0].tree)
        chk.ob("O3", Site.of(db, ps.exit_node, None if ps.exit_node is not None else "return"), ok, "returns the verified plaintext" if ok else f"_decrypt_blob returns '{ps.text(ps.value)[:50]}' without authenticated decryption")


def returns(repo: Repo, chk: Check) -> None:
    for q in ("_client.ncrypt_unprotect_secret", "_client.async_ncrypt_unprotect_secret"):
        f = repo.func(q)
        chk.analysed(f)
        summ = Summary(f)  # public API: parameter names are interface
        n = 0
        blob = f"DPAPINGBlob.unpack({f.params[0]})"
        for ps in summ.returning():
            n += 1
            v = ps.value
            ok = isinstance(v, ast.Call) and unparse(v.func) == "_decrypt_blob"
            a = {k: ps.text(x) for k, x in args_of(repo, f, v).items()} if ok else {}
            ok = ok and a.get("blob") == blob
            chk.ob("O3", Site.of(f, ps.exit_node, None if ps.exit_node is not None else "return"), bool(ok), "returns _decrypt_blob(parsed blob, key)" if ok else f"{f.name} returns '{ps.text(v)[:60]}': bytes that did not come out of the authenticated decryption of the parsed blob")
            chk.ob("O1", Site.of(f, construct="blob = DPAPINGBlob.unpack(data)"), bool(ok), "the whole input is parsed as a DPAPI-NG blob")
        chk.ob("O3", Site.of(f, construct="single result path"), n >= 1, f"{n} returning path(s)")


def binding(repo: Repo, chk: Check) -> None:
    gk = repo.method("_gkdi.GroupKeyEnvelope", "get_kek")
    chk.analysed(gk)
    summ = Summary(gk, ["self", "key_id"])
    modes = set()
    for ps in summ.returning():
        facts = ps.facts()
        site = Site.of(gk, ps.exit_node, None if ps.exit_node is not None else "return")
        ok0 = "key_id.l0 == self.l0" in facts
        chk.ob("O4", Site.of(gk, ps.exit_node, "get_kek uses l0"), ok0, "an envelope for another L0 is rejected" if ok0 else "get_kek no longer compares the blob's l0 with the envelope's: that field can be altered without the decryption failing")
        okp = "not (self.is_public_key)" in facts
        chk.ob("O4", Site.of(gk, ps.exit_node, "public key envelope"), okp, "a public-key-only envelope cannot decrypt")
        l2 = ps.calls("compute_l2_key")
        la = {k: ps.text(v) for k, v in ev_args(repo, gk, l2[0]).items()} if len(l2) == 1 else {}
        okl = la.get("request_l1") == "key_id.l1" and la.get("request_l2") == "key_id.l2" and la.get("rk") == "self"
        chk.ob("O4", Site.of(gk, l2[0].node if l2 else None, "get_kek uses l1/l2"), okl, "l1/l2 influence the KEK" if okl else "get_kek no longer uses the blob's l1/l2: that field can be altered without the decryption failing")
        pub = "key_id.is_public_key" in facts
        nonpub = "not (key_id.is_public_key)" in facts
        v = ps.value
        if pub and isinstance(v, ast.Call) and unparse(v.func).endswith("compute_kek_from_public_key"):
            modes.add("public")
            a = args_of(repo, gk, v)
            ok = ps.text(a.get("public_key")) == "key_id.key_info" and bool(l2) and ps.key(a.get("seed")) == ps.key(l2[0].tree)
            chk.ob("O4", site, ok, "key_info (public-key mode) and the L2 key influence the KEK" if ok else "get_kek no longer uses the blob's key_info (public-key mode): that field can be altered without the decryption failing")
        elif nonpub and isinstance(v, ast.Call) and unparse(v.func).endswith("kdf"):
            modes.add("nonce")
            a = args_of(repo, gk, v)
            ok = ps.text(a.get("context")) == "key_id.key_info" and bool(l2) and ps.key(a.get("secret")) == ps.key(l2[0].tree)
            chk.ob("O4", site, ok, "key_info (nonce mode) and the L2 key influence the KEK" if ok else "get_kek no longer uses the blob's key_info (nonce mode): that field can be altered without the decryption failing")
        else:
            chk.ob("O4", site, False, f"get_kek returns {ps.text(v)[:80]} on a path that has not decided key_id.is_public_key: the flags no longer select the derivation")
    chk.ob("O4", Site.of(gk, construct="get_kek uses flags"), modes == {"public", "nonce"}, "flags select the derivation" if modes == {"public", "nonce"} else f"only {sorted(modes)} derivation(s) reachable: the blob's flags no longer influence the KEK")
    # root key id, position and SD select the seed material (cache lookup and RPC)
    for q, getter in (("_client.ncrypt_unprotect_secret", "_sync_get_key"), ("_client.async_ncrypt_unprotect_secret", "_async_get_key")):
        f = repo.func(q)
        sf = Summary(f)
        blob = f"DPAPINGBlob.unpack({f.params[0]})"
        want = {"target_sd": f"{blob}.protection_descriptor.get_target_sd()", "root_key_id": f"{blob}.key_identifier.root_key_identifier", "l0": f"{blob}.key_identifier.l0", "l1": f"{blob}.key_identifier.l1", "l2": f"{blob}.key_identifier.l2"}
        seen = {"_get_key": 0, getter: 0}
        for ps in sf.returning():
            for name in ("_get_key", getter):
                for c in ps.calls(name):
                    seen[name] += 1
                    a = {k: ps.text(v) for k, v in ev_args(repo, f, c).items()}
                    bad = {k: a.get(k) for k, w in want.items() if a.get(k) != w}
                    chk.ob("O4", Site.of(f, c.node), not bad, f"{name} selects the key by the blob's SD, root key id and position" if not bad else f"{name} is called with {bad}: the key is not selected by the blob's own SD / root key id / position")
        for name, cnt in seen.items():
            if cnt == 0:
                chk.ob("O4", Site.of(f, construct=name), False, f"no returning path calls {name}")


def region_handlers(repo: Repo, chk: Check) -> None:
    from .c05 import region

    world = World(repo)
    reg, _ = region(repo, world)
    count = 0
    for q, f in sorted(reg.items()):
        for n in body_nodes(f.node):
            if isinstance(n, ast.Try):
                for h in n.handlers:
                    count += 1
                    reraises = any(isinstance(x, ast.Raise) for s in h.body for x in ast.walk(s))
                    chk.ob("O2", Site.of(f, h, f"except {unparse(h.type) if h.type else ''}"), reraises, "re-raises" if reraises else f"'except {unparse(h.type) if h.type else ''}' in {q} continues normally: InvalidTag / InvalidUnwrap / ValueError can be turned into a result")
            if isinstance(n, ast.With):
                for it in n.items:
                    if "suppress" in unparse(it.context_expr):
                        chk.ob("O2", Site.of(f, n), False, "contextlib.suppress in the decrypt region")
    chk.ob("O2", Site("src/dpapi_ng", "unprotect region", 0, "exception handlers in the decrypt region"), True, f"{len(reg)} functions, {count} handler(s) inspected")
