"""Shared obligations for the binary codecs: writer table = reader table (E4)."""

from __future__ import annotations

import typing as t

from sa import agree, layout
from sa.load import AnalysisError, Cls, Func, Repo
from sa.report import Check, Site
from sa.sym import Lin, Seg
from sa.symeval import Unsupported

_SIZES: t.Dict[int, agree.Sizes] = {}


def sizes_of(repo: Repo) -> agree.Sizes:
    if id(repo) not in _SIZES:
        _SIZES[id(repo)] = agree.Sizes(repo)
    return _SIZES[id(repo)]


def _report(chk: Check, rule: str, cls: Cls, v: agree.Verdict, what: str) -> bool:
    fn = cls.find_method("pack")
    assert fn is not None
    if v.ok:
        chk.ob(rule, Site.of(fn, construct=f"{cls.name}: {what}"), True, "; ".join(sorted(set(v.notes))) or "tables agree")
        return True
    for p in v.problems:
        node = p.node
        rf = cls.methods.get("unpack") or cls.methods.get("_unpack") or fn
        site = Site.of(rf if node is not None else fn, node, None if node is not None else f"{cls.name}: {what}")
        chk.ob(rule, site, False, f"{cls.name}: {p.what}")
    return False


def plain(repo: Repo, chk: Check, rule: str, qual: str, reader: str = "unpack") -> bool:
    cls = repo.cls(qual)
    fw, fr = cls.methods.get("pack"), cls.methods.get(reader)
    if fw is None or fr is None:
        raise AnalysisError(f"{qual}: pack/{reader} pair vanished")
    chk.analysed(fw, fr)
    chk.count("codec tables")
    w = layout.writer_paths(repo, fw)
    r = layout.reader_paths(repo, fr)
    src = fr.params[1] if fr.is_classmethod and len(fr.params) > 1 else fr.params[0]
    v = agree.agree_paths(repo, w, r, cls, src, sizes_of(repo))
    chk.table(f"{cls.name}", {"writer": v.tables["writer"][:1], "pairs": v.pairs})
    ok = _report(chk, rule, cls, v, "pack() table = unpack() table")
    return rejections(repo, chk, rule, cls, fr, src) and ok


def _atoms_of(x: t.Any) -> t.Set[t.Any]:
    out: t.Set[t.Any] = set()
    if isinstance(x, Lin):
        for a in x.terms:
            out.add(a)
            stack = [a]
            while stack:
                y = stack.pop()
                if isinstance(y, tuple):
                    for z in y:
                        if isinstance(z, Lin):
                            out |= _atoms_of(z)
                        elif isinstance(z, tuple):
                            out.add(z)
                            stack.append(z)
    return out


def rejections(repo: Repo, chk: Check, rule: str, cls: Cls, fr: Func, src: str) -> bool:
    """decode(encode(x)) = x needs the decoder to accept whatever the encoder emits.  Every raising path of the decoder
    must therefore be decided, at its last branch, by something an encoded value cannot show: a literal (magic) that
    differs from the one the format prescribes, a code outside the code table, or a size test against the input
    length.  A rejection decided by anything else - a decoded field value - refuses values pack() writes."""
    ok = True
    n = 0
    for st, o in layout.Interp(repo, fr).run(layout.self_state(repo, fr)):
        if o.kind != "raise":
            continue
        n += 1
        if not st.conds:
            chk.ob(rule, Site.of(fr, o.node), False, f"{cls.name}.{fr.name} raises unconditionally")
            ok = False
            continue
        c, pol = st.conds[-1]

        def kind_of(b: t.Any) -> t.Optional[str]:
            info = dict(getattr(b, "info", {}) or {})
            inner = info.get("neg") if not isinstance(info.get("neg"), bool) else None
            if inner is not None and hasattr(inner, "info"):
                return kind_of(inner)
            if "values" in info:
                # a compound test: every operand must be of an accepted kind
                ks = [kind_of(x) for x in info["values"]]
                return None if any(k is None for k in ks) or not ks else " / ".join(sorted(set(t.cast(t.List[str], ks))))
            if "lit_read" in info:
                return "literal mismatch"
            if "dictmap" in info:
                return "code outside the table"
            if "view_nonempty" in info:
                return "input exhausted"
            if "cmp" in info:
                _op, a, b_ = info["cmp"]
                ats = _atoms_of(a) | _atoms_of(b_)
                if any(isinstance(x, tuple) and x and x[0] in ("end", "len") and (len(x) < 2 or src in str(x[1]) or x[0] == "end") for x in ats):
                    return "size test against the input length"
            return None

        kind = kind_of(c)
        if kind is None:
            ok = False
            chk.ob(rule, Site.of(fr, o.node), False, f"{cls.name}.{fr.name} rejects its input when '{('' if pol else 'not ') + c.desc[:120]}': a test of decoded values that pack() does not enforce, so values the encoder emits are refused by the decoder (decode(encode(x)) fails)")
        else:
            chk.ob(rule, Site.of(fr, o.node), True, f"rejection decided by a {kind}")
    chk.count("decoder rejection paths", n)
    return ok


def pdu_body(repo: Repo, chk: Check, rule: str, qual: str) -> bool:
    """PDU subclasses: pack() = header || body || [sec_trailer]; _unpack(body, header, sec_trailer)."""
    cls = repo.cls(qual)
    fw = cls.find_method("pack")
    fr = cls.methods.get("_unpack")
    if fw is None or fr is None or fw.cls is None:
        raise AnalysisError(f"{qual}: pack/_unpack pair vanished")
    owner = fw.cls
    if fr is not None and fr.cls is not None and "__func__" in layout.unparse(fr.node):
        # AlterContext / AlterContextResponse delegate to the parent's _unpack with cls substituted
        parent = [b for b in cls.bases if b.methods.get("_unpack")]
        ok = bool(parent) and f"{parent[0].name}._unpack.__func__(cls, data, header, sec_trailer)" in layout.unparse(fr.node).replace("\n", " ")
        chk.analysed(fr)
        chk.count("codec tables")
        return chk.ob(rule, Site.of(fr, construct=f"{cls.name}: _unpack delegates to {parent[0].name if parent else '?'}._unpack"), ok,
                      "delegation with unchanged arguments" if ok else "delegating _unpack does not forward (cls, data, header, sec_trailer) to the parent's _unpack")
    chk.analysed(fw, fr)
    chk.count("codec tables")
    hdr_cls = repo.cls("_rpc._pdu.PDUHeader")
    problems: t.List[str] = []

    def strip(segs: t.List[Seg]) -> t.List[Seg]:
        if not segs or segs[0].kind != "nested" or segs[0].ref.path != "self.header" or segs[0].cls is not hdr_cls:
            problems.append("pack() does not start with self.header.pack()")
            return segs
        body = segs[1:]
        if body and body[-1].kind == "nested" and body[-1].ref.path == "self.sec_trailer":
            body = body[:-1]
        return body

    w = layout.writer_paths(repo, fw)
    r = layout.reader_paths(repo, fr)
    # the security trailer must be the last thing written whenever it is present
    for p in w:
        has = any(c.info.get("truthy") == "self.sec_trailer" and pol for c, pol in _implied(p.conds))
        last_is_trailer = bool(p.segs) and p.segs[-1].kind == "nested" and p.segs[-1].ref.path == "self.sec_trailer"
        if has and not last_is_trailer:
            problems.append("security trailer is not the last segment written")
    v = agree.agree_paths(repo, w, r, owner if owner is cls else cls, fr.params[1], sizes_of(repo), strip=strip, passthrough=("header", "sec_trailer"))
    for pr in problems:
        v.ok = False
        v.problems.append(agree.Mismatch(pr))
    # pass-through parameters
    for rp in r:
        res = rp.result
        if hasattr(res, "fields"):
            h = res.fields.get("header")
            if not (getattr(h, "path", None) == "header"):
                v.ok = False
                v.problems.append(agree.Mismatch(f"_unpack builds header from {h!r} instead of its header argument"))
            s = res.fields.get("sec_trailer")
            if not (s is None or getattr(s, "path", None) == "sec_trailer"):
                v.ok = False
                v.problems.append(agree.Mismatch(f"_unpack builds sec_trailer from {s!r}"))
    chk.table(f"{cls.name}", {"writer": v.tables["writer"][:1], "pairs": v.pairs})
    return _report(chk, rule, cls, v, "header || body || trailer table = _unpack() table")


def delegate(repo: Repo, chk: Check, rule: str, qual: str, base: str, sources: t.Sequence[str], passthrough: t.Sequence[str]) -> bool:
    cls = repo.cls(qual)
    chk.analysed(cls.methods["pack"], cls.methods["_unpack"])
    chk.count("codec tables")
    v = agree.agree_delegate(repo, cls, sizes_of(repo), repo.cls(base), sources, passthrough)
    return _report(chk, rule, cls, v, f"delegated {base.rsplit('.', 1)[-1]} payload table = _unpack() table")


def guarded(fn: t.Callable[[], bool], chk: Check, rule: str, repo: Repo, qual: str) -> None:
    try:
        fn()
    except Unsupported as e:
        raise AnalysisError(f"{qual}: codec left the idiom table: {e}")


def _implied(conds: t.Any) -> t.Any:
    from .c11 import implied

    return implied(conds)
