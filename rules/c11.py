"""C11 - MS-GKDI structures and GetKey stubs have exactly the specified byte layout."""

from __future__ import annotations

import typing as t

from sa import layout
from sa.load import AnalysisError, Repo
from sa.report import Check, Site
from sa.sym import Lin, SBytes
from sa.symeval import BSlice, Unsupported

from . import codecs
from .reftab import ENUM, F, INT, LEN, LENZ, LIT, NESTED, PAD, RAW, STRZ, UUID, cat, first_difference, sigs_of

CODECS = [
    "_gkdi.GetKey",
    "_gkdi.KDFParameters",
    "_gkdi.FFCDHParameters",
    "_gkdi.FFCDHKey",
    "_gkdi.ECDHKey",
    "_gkdi.GroupKeyEnvelope",
    "_blob.KeyIdentifier",
]


def _kl() -> Lin:
    return F("self.key_length")


# Reference tables, written from MS-GKDI 2.2.1 - 2.2.4, 3.1.4.1 and the NDR64 transfer syntax
# (C706 14 / MS-RPCE 2.2.5): conformant array = 8 byte max count, elements, then the next
# item aligned to its own size; unique pointer = 8 byte referent id (0 = null) then pointee.
def reference() -> t.Dict[str, t.Dict[t.FrozenSet[t.Tuple[str, bool]], t.List[t.Any]]]:
    sd = "self.target_sd"
    getkey_head = cat(
        INT(LEN(sd), 8),  # cbTargetSD (ULONG) + alignment of the following 8 byte max count
        INT(LEN(sd), 8),  # conformant array max count
        RAW(sd),
        PAD(8, LEN(sd)),
    )
    getkey_tail = cat(
        INT(F("self.l0_key_id"), 4, signed=True),
        INT(F("self.l1_key_id"), 4, signed=True),
        INT(F("self.l2_key_id"), 4, signed=True),
    )
    return {
        "_gkdi.GetKey": {
            frozenset({("self.root_key_id", False)}): cat(getkey_head, LIT("00" * 8), getkey_tail),
            frozenset({("self.root_key_id", True)}): cat(getkey_head, LIT("0000020000000000"), UUID("self.root_key_id"), getkey_tail),
        },
        "_gkdi.KDFParameters": {
            frozenset(): cat(
                LIT("00000000 01000000"),
                INT(LENZ("self.hash_name"), 4),
                LIT("00000000"),
                STRZ("self.hash_name"),
            )
        },
        "_gkdi.FFCDHParameters": {
            frozenset(): cat(
                INT(_kl().scale(2) + 12, 4),
                LIT("4448504d"),
                INT(_kl(), 4),
                INT(F("self.field_order"), _kl(), "big"),
                INT(F("self.generator"), _kl(), "big"),
            )
        },
        "_gkdi.FFCDHKey": {
            frozenset(): cat(
                LIT("44485042"),
                INT(_kl(), 4),
                INT(F("self.field_order"), _kl(), "big"),
                INT(F("self.generator"), _kl(), "big"),
                INT(F("self.public_key"), _kl(), "big"),
            )
        },
        "_gkdi.ECDHKey": {
            frozenset(): cat(
                ENUM("self.curve_name", {"P256": "45434b31", "P384": "45434b33", "P521": "45434b35"}),
                INT(_kl(), 4),
                INT(F("self.x"), _kl(), "big"),
                INT(F("self.y"), _kl(), "big"),
            )
        },
        "_gkdi.GroupKeyEnvelope": {
            frozenset(): cat(
                INT(F("self.version"), 4),
                LIT("4b44534b"),
                INT(F("self.flags"), 4),
                INT(F("self.l0"), 4),
                INT(F("self.l1"), 4),
                INT(F("self.l2"), 4),
                UUID("self.root_key_identifier"),
                INT(LENZ("self.kdf_algorithm"), 4),
                INT(LEN("self.kdf_parameters"), 4),
                INT(LENZ("self.secret_algorithm"), 4),
                INT(LEN("self.secret_parameters"), 4),
                INT(F("self.private_key_length"), 4),
                INT(F("self.public_key_length"), 4),
                INT(LEN("self.l1_key"), 4),
                INT(LEN("self.l2_key"), 4),
                INT(LENZ("self.domain_name"), 4),
                INT(LENZ("self.forest_name"), 4),
                STRZ("self.kdf_algorithm"),
                RAW("self.kdf_parameters"),
                STRZ("self.secret_algorithm"),
                RAW("self.secret_parameters"),
                STRZ("self.domain_name"),
                STRZ("self.forest_name"),
                RAW("self.l1_key"),
                RAW("self.l2_key"),
            )
        },
        "_blob.KeyIdentifier": {
            frozenset(): cat(
                INT(F("self.version"), 4),
                LIT("4b44534b"),
                INT(F("self.flags"), 4),
                INT(F("self.l0"), 4),
                INT(F("self.l1"), 4),
                INT(F("self.l2"), 4),
                UUID("self.root_key_identifier"),
                INT(LEN("self.key_info"), 4),
                INT(LENZ("self.domain_name"), 4),
                INT(LENZ("self.forest_name"), 4),
                RAW("self.key_info"),
                STRZ("self.domain_name"),
                STRZ("self.forest_name"),
            )
        },
    }


def _cond_key(conds: t.List[t.Tuple[t.Any, bool]]) -> t.FrozenSet[t.Tuple[str, bool]]:
    out = set()
    for c, pol in implied(conds):
        if "truthy" in c.info:
            out.add((c.info["truthy"], pol))
        elif "dictmap" in c.info:
            continue  # "known curve" guard of ECDHKey.pack, not a layout alternative
        else:
            out.add((c.desc, pol))
    return frozenset(out)


def run(repo: Repo, chk: Check) -> None:
    chk.scope_decides = (
        "O1 writer table = reader table for GetKey, KDFParameters, FFCDHParameters, FFCDHKey, ECDHKey, GroupKeyEnvelope, "
        "KeyIdentifier (field order, widths, byte order, signedness, length prefixes naming the field they delimit, UTF-16 "
        "terminator convention, NDR64 padding), symbolically in all field values and lengths; O2 writer tables = reference tables "
        "transcribed from MS-GKDI / NDR64, the GetKey reply offsets, and no raising path of the reply decoder is reachable by a well-formed "
        "successful reply (path conditions evaluated for every envelope length 0..255: total 28 + n + (-n mod 4), HRESULT 0); O3 exactly the reply's own auth padding is cut before decoding."
    )
    chk.scope_not = "the semantics of int.to_bytes/from_bytes, bytes.join and the utf-16-le codec (trusted base); values of keys."
    chk.trusted = ["Python int.to_bytes/int.from_bytes/slicing/bytes.join semantics", "reference tables in rules/c11.py transcribed from MS-GKDI 2.2.1-2.2.4, 3.1.4.1"]
    try:
        for q in CODECS:
            codecs.plain(repo, chk, "O1", q)
        _reference(repo, chk)
        _reply(repo, chk)
        _trim(repo, chk)
    except Unsupported as e:
        raise AnalysisError(f"codec left the idiom table: {e}")
    chk.require_min("codec tables", 7)
    chk.require_min("reference tables", 8)


def _reference(repo: Repo, chk: Check) -> None:
    ref = reference()
    for q, alts in ref.items():
        cls = repo.cls(q)
        fw = cls.methods["pack"]
        paths = layout.writer_paths(repo, fw)
        seen = set()
        for p in paths:
            key = _cond_key(p.conds)
            got = sigs_of(p.segs)
            chk.count("reference tables")
            if key not in alts:
                chk.ob("O2", Site.of(fw, construct=f"{cls.name}.pack alternative {sorted(key)}"), False, f"{cls.name}.pack has a layout alternative the specification does not have: {sorted(key)}")
                continue
            seen.add(key)
            diff = first_difference(got, alts[key])
            chk.ob("O2", Site.of(fw, construct=f"{cls.name}.pack layout {sorted(key) or 'always'}"), diff is None, diff or "writer table equals the reference table")
        for key in alts:
            if key not in seen:
                chk.ob("O2", Site.of(fw, construct=f"{cls.name}.pack alternative {sorted(key)}"), False, f"{cls.name}.pack lacks the layout alternative {sorted(key)} of the specification")


def _reply(repo: Repo, chk: Check) -> None:
    """GetKey reply (NDR64): pcbOut(4) pad(4) referent(8) max count(8) bytes[pcbOut] ... HRESULT(4, last)."""
    fr = repo.method("_gkdi.GetKey", "unpack_response")
    chk.analysed(fr)
    paths = layout.reader_paths(repo, fr)
    src = fr.params[1]
    end = Lin.atom(("end", src))
    chk.count("reference tables")
    for p in paths:
        reads = {(r.kind, repr(r.lo), repr(r.hi), r.a.get("order"), r.a.get("signed")): r for r in p.reads}
        hres = [r for r in p.reads if r.kind == "int" and r.lo == end - 4 and r.hi == end and r.a.get("order") == "little"]
        ok1 = bool(hres)
        chk.ob("O2", Site.of(fr, hres[0].node if hres else None, None if hres else "GetKey.unpack_response: HRESULT"), ok1, "HRESULT is the trailing 4 little-endian bytes" if ok1 else f"HRESULT is not read from the last 4 bytes: {sorted(reads)}")
        ln = [r for r in p.reads if r.kind == "int" and r.lo == 0 and r.hi == 4 and r.a.get("order") == "little" and not r.a.get("signed")]
        ok2 = bool(ln)
        chk.ob("O2", Site.of(fr, ln[0].node if ln else None, None if ln else "GetKey.unpack_response: pcbOut"), ok2, "pcbOut read from bytes 0..4" if ok2 else "pcbOut is not read as 4 unsigned little-endian bytes at offset 0")
        res = p.result
        ok3 = False
        why = f"envelope decoded from {res!r}"
        rec = getattr(res, "rec", None)
        nested = [r for r in p.reads if r.kind == "nested"]
        if nested and ln:
            n = nested[0]
            want_lo = Lin(24)
            want_hi = Lin(24) + Lin.atom(("read", ln[0].rid))
            ok3 = n.lo == want_lo and n.hi == want_hi and n.a["cls"].name == "GroupKeyEnvelope" and getattr(res, "rid", None) == n.rid
            why = f"envelope decoded from [{n.lo!r}:{n.hi!r}], expected [24:24 + pcbOut]"
        del rec
        chk.ob("O2", Site.of(fr, nested[0].node if nested else None, None if nested else "GetKey.unpack_response: envelope slice"), ok3, why)
        # the HRESULT guard must dominate the decode: a raising path exists for hresult != 0
    outcomes = list(layout.Interp(repo, fr).run(layout.self_state(repo, fr)))
    raising = [o for _, o in outcomes if o.kind == "raise"]
    chk.ob("O2", Site.of(fr, construct="GetKey.unpack_response: non-zero HRESULT raises"), bool(raising), "a failing HRESULT is reported" if raising else "no raising path for a non-zero HRESULT")
    # no raising path is taken by a well-formed successful reply: pcbOut = n, total length 28 + n + (-n % 4), HRESULT 0.
    # The conditions of each raising path are evaluated for every n in 0..255 (all residues of any small modulus).
    from sa.sym import eval_lin

    for st, o in outcomes:
        if o.kind != "raise":
            continue
        hres_r = [r for r in st.reads if r.kind == "int" and r.lo == end - 4 and r.hi == end]
        ln_r = [r for r in st.reads if r.kind == "int" and r.lo == 0 and r.hi == 4]
        facts = implied(st.conds)
        witness: t.Optional[int] = None
        undecided = False
        for n in range(256):
            env: t.Dict[t.Any, int] = {("end", src): 28 + n + (-n % 4)}
            for r in hres_r:
                env[("read", r.rid)] = 0
            for r in ln_r:
                env[("read", r.rid)] = n
            allhold = True
            for c, pol in facts:
                info = getattr(c, "info", {})
                val: t.Optional[bool] = None
                if "cmp" in info:
                    op, a, b = info["cmp"]
                    x, y = eval_lin(a, env), eval_lin(b, env)
                    if x is not None and y is not None:
                        val = {"lt": x < y, "le": x <= y, "gt": x > y, "ge": x >= y, "eq": x == y, "ne": x != y}[op]
                elif "nonzero" in info and isinstance(info["nonzero"], Lin):
                    x = eval_lin(info["nonzero"], env)
                    val = None if x is None else x != 0
                if val is None:
                    undecided = True
                    allhold = False
                    break
                if val != pol:
                    allhold = False
                    break
            if allhold:
                witness = n
                break
        site_r = Site.of(fr, o.node if getattr(o, "node", None) is not None else None, None if getattr(o, "node", None) is not None else "GetKey.unpack_response: raise")
        if witness is not None:
            chk.ob("O2", site_r, False, f"this error path is taken by a well-formed successful reply with a {witness} byte envelope (total {28 + witness + (-witness % 4)} bytes, 4-byte aligned before the HRESULT): conditions {[('' if p_ else 'not ') + c.desc for c, p_ in facts]}")
        elif not undecided:
            chk.ob("O2", site_r, True, "not reachable for a well-formed successful reply of any envelope length")


def implied(conds: t.List[t.Tuple[t.Any, bool]]) -> t.List[t.Tuple[t.Any, bool]]:
    """Atomic facts implied by path conditions (And taken true, Or taken false are split)."""
    out: t.List[t.Tuple[t.Any, bool]] = []
    work = list(conds)
    while work:
        c, pol = work.pop()
        if hasattr(c, "info") and "neg" in c.info and not isinstance(c.info["neg"], bool):
            work.append((c.info["neg"], not pol))
            continue
        vals = getattr(c, "info", {}).get("values")
        op = getattr(c, "info", {}).get("op")
        if vals and ((op == "And" and pol) or (op == "Or" and not pol)):
            for v in vals:
                if isinstance(v, bool):
                    continue
                work.append((v, pol))
            continue
        out.append((c, pol))
    return out


def _trim(repo: Repo, chk: Check) -> None:
    f = repo.func("_client._process_get_key_result")
    chk.analysed(f)
    stub = "response.stub_data"
    pad = Lin.atom(("field", "response.sec_trailer.pad_length"))
    n = 0
    for st, out in layout.Interp(repo, f).run(layout.self_state(repo, f)):
        if out.kind != "return":
            continue
        calls = [c for c in st.calls if c.name.endswith("GetKey.unpack_response")]
        site = Site.of(f, calls[0].node if calls else None, None if calls else "_process_get_key_result: decode call")
        if not calls or getattr(out.value, "rec", None) is not calls[-1]:
            chk.ob("O3", site, False, "the returned envelope is not the result of GetKey.unpack_response on the trimmed stub")
            continue
        n += 1
        arg = calls[-1].arg(0)
        facts = implied(st.conds)
        trailer = any(getattr(c, "info", {}).get("truthy") == "response.sec_trailer" and pol for c, pol in facts)
        nonzero = any(getattr(c, "info", {}).get("nonzero") == pad and pol for c, pol in facts)
        length = Lin.atom(("len", stub))
        ok, why = False, f"decoded bytes are {arg!r}"
        base_ok = lambda b: isinstance(b, SBytes) and len(b.segs) == 1 and b.segs[0].kind == "raw" and b.segs[0].ref.path == stub  # noqa: E731
        if base_ok(arg):
            # whole stub: only right when there is no padding to cut
            ok = not (trailer and nonzero)
            why = "whole stub decoded although the trailer declares padding" if not ok else "no padding declared on this path: whole stub decoded"
        elif isinstance(arg, BSlice) and base_ok(arg.base) and (arg.lo is None or arg.lo == 0) and arg.hi is not None:
            if arg.hi == length:
                ok = not (trailer and nonzero)
                why = "whole stub decoded although the trailer declares padding" if not ok else "no padding declared on this path: whole stub decoded"
            elif arg.hi == length - pad:
                ok = trailer
                why = "stub[: len(stub) - sec_trailer.pad_length]" if ok else "pad_length used on a path without security trailer"
            elif arg.hi == -pad:
                ok = trailer and nonzero
                why = "stub[:-pad_length] with pad_length != 0 guaranteed" if ok else "stub[:-pad_length] is empty when pad_length is 0 (reply already 16-byte aligned)"
            else:
                why = f"stub cut at {arg.hi!r}, expected len(stub) - sec_trailer.pad_length"
        chk.ob("O3", site, ok, why)
    chk.count("trim paths", n)
    chk.require_min("trim paths", 2)
