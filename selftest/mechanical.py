#!/usr/bin/env python3
"""Whole-tree mechanical, behaviour-preserving transformations of /repo/src: every check must stay silent on each.

usage: mechanical.py [kind ...]      kinds: unparse ifswap cmpswap augexpand nest flat rename   (default: all)

For each kind a scratch copy of /repo (src, tests, pyproject.toml) is made under /tmp, the transformation is applied
to every module, the unedited test suite is run on the copy (must pass: the transformation really preserves behaviour
as far as the suite can tell), then ./check --all --repo <copy>; the copy is removed.  Exit 1 if any check is not
silent.
"""
import ast
import glob
import os
import shutil
import subprocess
import sys
import tempfile

VERIF = os.path.dirname(os.path.dirname(os.path.abspath(__file__)))
KINDS = ["unparse", "ifswap", "cmpswap", "augexpand", "nest", "flat", "rename", "kwargs", "posargs", "temps"]


def term(block):
    return bool(block) and isinstance(block[-1], (ast.Raise, ast.Return, ast.Continue, ast.Break))


class Swap(ast.NodeTransformer):
    def __init__(self, kind):
        self.kind = kind

    def visit_If(self, n):
        self.generic_visit(n)
        if self.kind == "ifswap" and n.orelse and not (len(n.orelse) == 1 and isinstance(n.orelse[0], ast.If)):
            n.test = ast.UnaryOp(op=ast.Not(), operand=n.test)
            n.body, n.orelse = n.orelse, n.body
        return n

    def visit_Compare(self, n):
        self.generic_visit(n)
        m = {ast.Eq: ast.Eq, ast.NotEq: ast.NotEq, ast.Lt: ast.Gt, ast.LtE: ast.GtE, ast.Gt: ast.Lt, ast.GtE: ast.LtE}
        if self.kind == "cmpswap" and len(n.ops) == 1 and type(n.ops[0]) in m:
            n.left, n.comparators[0] = n.comparators[0], n.left
            n.ops = [m[type(n.ops[0])]()]
        return n

    def visit_AugAssign(self, n):
        self.generic_visit(n)
        if self.kind == "augexpand" and isinstance(n.target, ast.Name) and isinstance(n.op, (ast.Add, ast.Sub, ast.LShift, ast.RShift, ast.BitOr)):
            return ast.copy_location(ast.Assign(targets=[ast.Name(id=n.target.id, ctx=ast.Store())], value=ast.BinOp(left=ast.Name(id=n.target.id, ctx=ast.Load()), op=n.op, right=n.value)), n)
        return n


def nest(block, kind):
    out = []
    i = 0
    while i < len(block):
        s = block[i]
        for f in ("body", "orelse", "finalbody"):
            if hasattr(s, f) and isinstance(getattr(s, f), list) and getattr(s, f) and isinstance(getattr(s, f)[0], ast.stmt):
                setattr(s, f, nest(getattr(s, f), kind))
        if isinstance(s, ast.Try):
            for h in s.handlers:
                h.body = nest(h.body, kind)
        if kind == "nest" and isinstance(s, ast.If) and not s.orelse and term(s.body) and i + 1 < len(block) and not isinstance(s.body[-1], (ast.Continue, ast.Break)):
            s.orelse = nest(block[i + 1:], kind)
            out.append(s)
            return out
        if kind == "flat" and isinstance(s, ast.If) and s.orelse and term(s.body) and not (len(s.orelse) == 1 and isinstance(s.orelse[0], ast.If)):
            rest = s.orelse
            s.orelse = []
            out.append(s)
            out.extend(rest)
            i += 1
            continue
        out.append(s)
        i += 1
    return out


def locals_of(fn):
    out = set()
    params = {a.arg for a in fn.args.posonlyargs + fn.args.args + fn.args.kwonlyargs}
    if fn.args.vararg:
        params.add(fn.args.vararg.arg)
    if fn.args.kwarg:
        params.add(fn.args.kwarg.arg)
    glob_ = set()
    stack = list(fn.body)
    while stack:
        n = stack.pop()
        if isinstance(n, (ast.FunctionDef, ast.AsyncFunctionDef, ast.ClassDef, ast.Lambda)):
            continue
        if isinstance(n, (ast.Global, ast.Nonlocal)):
            glob_ |= set(n.names)
        if isinstance(n, ast.Name) and isinstance(n.ctx, ast.Store):
            out.add(n.id)
        stack.extend(ast.iter_child_nodes(n))
    nested = set()
    for n in ast.walk(fn):
        if n is not fn and isinstance(n, (ast.FunctionDef, ast.AsyncFunctionDef, ast.Lambda, ast.ClassDef)):
            for m in ast.walk(n):
                if isinstance(m, ast.Name):
                    nested.add(m.id)
    return out - params - glob_ - nested


class Rename(ast.NodeTransformer):
    def __init__(self, names):
        self.names = names

    def visit_Name(self, n):
        if n.id in self.names:
            n.id = n.id + "_v"
        return n

    def visit_arg(self, n):
        return n


def signatures(root):
    """module-level functions of the package with a unique name -> positional parameter names (no *args / defaults-only)."""
    seen = {}
    for p in glob.glob(root + "/src/dpapi_ng/**/*.py", recursive=True):
        for n in ast.parse(open(p).read()).body:
            if isinstance(n, (ast.FunctionDef, ast.AsyncFunctionDef)):
                seen.setdefault(n.name, []).append(n)
    out = {}
    for name, defs in seen.items():
        if len(defs) == 1 and not defs[0].args.vararg and not defs[0].args.kwarg and not defs[0].args.posonlyargs:
            out[name] = [a.arg for a in defs[0].args.args]
    return out


class KwArgs(ast.NodeTransformer):
    def __init__(self, sigs, kind):
        self.sigs, self.kind = sigs, kind

    def visit_Call(self, n):
        self.generic_visit(n)
        if isinstance(n.func, ast.Name) and n.func.id in self.sigs and not any(isinstance(a, ast.Starred) for a in n.args) and not any(k.arg is None for k in n.keywords):
            params = self.sigs[n.func.id]
            if self.kind == "kwargs" and len(n.args) <= len(params):
                n.keywords = [ast.keyword(arg=p, value=a) for p, a in zip(params, n.args)] + n.keywords
                n.args = []
            elif self.kind == "posargs":
                given = {k.arg: k.value for k in n.keywords}
                args = list(n.args)
                while len(args) < len(params) and params[len(args)] in given:
                    args.append(given.pop(params[len(args)]))
                n.args = args
                n.keywords = [k for k in n.keywords if k.arg in given]
        return n


def tempify(fn):
    """x = f(g(a), h(b)) -> t1 = g(a); t2 = h(b); x = f(t1, t2)   (simple statements; the other arguments are pure)."""
    counter = [0]

    def pure(e):
        return not any(isinstance(n, (ast.Call, ast.Await, ast.Yield, ast.YieldFrom, ast.NamedExpr, ast.ListComp, ast.GeneratorExp, ast.DictComp, ast.SetComp, ast.Lambda, ast.IfExp, ast.BoolOp)) for n in ast.walk(e))

    def block(stmts):
        out = []
        for s in stmts:
            for f in ("body", "orelse", "finalbody"):
                if hasattr(s, f) and isinstance(getattr(s, f), list) and getattr(s, f) and isinstance(getattr(s, f)[0], ast.stmt) and not isinstance(s, (ast.FunctionDef, ast.AsyncFunctionDef, ast.ClassDef)):
                    setattr(s, f, block(getattr(s, f)))
            if isinstance(s, ast.Try):
                for h in s.handlers:
                    h.body = block(h.body)
            v = getattr(s, "value", None) if isinstance(s, (ast.Assign, ast.Return, ast.Expr, ast.AnnAssign)) else None
            if isinstance(v, ast.Call) and pure(v.func) and not any(isinstance(a, ast.Starred) for a in v.args) and all(k.arg for k in v.keywords):
                items = list(v.args) + [k.value for k in v.keywords]
                if all(pure(a) or (isinstance(a, ast.Call) and pure(a.func) and all(pure(x) for x in list(a.args) + [k.value for k in a.keywords])) for a in items) and any(isinstance(a, ast.Call) for a in items):
                    pre = []
                    def tmp(a):
                        if isinstance(a, ast.Call):
                            counter[0] += 1
                            name = f"tmp_{counter[0]}"
                            pre.append(ast.copy_location(ast.Assign(targets=[ast.Name(id=name, ctx=ast.Store())], value=a), s))
                            return ast.copy_location(ast.Name(id=name, ctx=ast.Load()), a)
                        return a
                    v.args = [tmp(a) for a in v.args]
                    for k in v.keywords:
                        k.value = tmp(k.value)
                    out.extend(pre)
            out.append(s)
        return out

    fn.body = block(fn.body)


def transform(kind, root):
    sigs = signatures(root) if kind in ("kwargs", "posargs") else {}
    for p in glob.glob(root + "/src/dpapi_ng/**/*.py", recursive=True):
        tree = ast.parse(open(p).read())
        if kind in ("kwargs", "posargs"):
            tree = KwArgs(sigs, kind).visit(tree)
        if kind in ("ifswap", "cmpswap", "augexpand"):
            tree = Swap(kind).visit(tree)
        elif kind in ("nest", "flat"):
            for fn in ast.walk(tree):
                if isinstance(fn, (ast.FunctionDef, ast.AsyncFunctionDef)):
                    fn.body = nest(fn.body, kind)
        elif kind == "temps":
            for fn in ast.walk(tree):
                if isinstance(fn, (ast.FunctionDef, ast.AsyncFunctionDef)) and not isinstance(fn, ast.AsyncFunctionDef):
                    tempify(fn)
        elif kind == "rename":
            for fn in ast.walk(tree):
                if isinstance(fn, (ast.FunctionDef, ast.AsyncFunctionDef)):
                    names = locals_of(fn)
                    if names:
                        r = Rename(names)
                        fn.body = [r.visit(s) for s in fn.body]
        ast.fix_missing_locations(tree)
        open(p, "w").write(ast.unparse(tree) + "\n")


def main():
    kinds = [k for k in sys.argv[1:] if k in KINDS] or KINDS
    bad = 0
    for kind in kinds:
        tmp = tempfile.mkdtemp(prefix=f"mech-{kind}-", dir="/tmp")
        try:
            for d in ("src", "tests"):
                shutil.copytree(os.path.join("/repo", d), os.path.join(tmp, d))
            if os.path.exists("/repo/pyproject.toml"):
                shutil.copy("/repo/pyproject.toml", tmp)
            transform(kind, tmp)
            env = dict(os.environ, PYTHONPATH=os.path.join(tmp, "src"), PYTHONDONTWRITEBYTECODE="1")
            t = subprocess.run(["/venv/bin/python", "-m", "pytest", "-q", "-p", "no:cacheprovider", "tests"], cwd=tmp, env=env, capture_output=True, text=True)
            suite = t.stdout.strip().splitlines()[-1] if t.stdout.strip() else "?"
            c = subprocess.run([os.path.join(VERIF, "check"), "--all", "--repo", tmp], cwd=VERIF, capture_output=True, text=True)
            noisy = [l for l in c.stdout.splitlines() if l.startswith(("VIOLATION", "ANALYSIS-ERROR")) or ("violation(s)" in l and " 0 violation(s)" not in l)]
            print(f"{kind}: suite {suite}; " + ("all checks silent" if not noisy and c.returncode == 0 else f"NOT SILENT (exit {c.returncode}): " + " | ".join(noisy[:4])))
            if noisy or c.returncode != 0 or "passed" not in suite:
                bad += 1
        finally:
            shutil.rmtree(tmp, ignore_errors=True)
    sys.exit(1 if bad else 0)


if __name__ == "__main__":
    main()
