#!/usr/bin/env python3
"""Confirm sub-agent mutants independently and file them under /verif/seeded/<id>/.

usage: confirm_seeded.py <agent_out_root> [--jobs N]
For each <root>/Cxx/_out/mK: in a fresh scratch worktree of /repo (under /tmp, removed afterwards)
  1. demo on clean tree must exit 0
  2. patch must apply; full suite must pass (276); demo must exit non-zero
Kept ones are copied to /verif/seeded/Cxx-mK/{patch.diff,demo.py,notes.md,meta.json}.
"""
import concurrent.futures as cf
import json
import os
import shutil
import subprocess
import sys
import tempfile

VERIF = os.path.dirname(os.path.dirname(os.path.abspath(__file__)))
REPO = "/repo"
PREFIX = ""
PY = "/venv/bin/python"


def sh(cmd, cwd=None, env=None, timeout=300):
    p = subprocess.run(cmd, cwd=cwd, env=env, shell=isinstance(cmd, str), capture_output=True, text=True, timeout=timeout)
    return p.returncode, (p.stdout + p.stderr)[-2000:]


def confirm(args):
    pid, mk, src = args
    wt = tempfile.mkdtemp(prefix=f"seed-{pid}-{mk}-", dir="/tmp")
    os.rmdir(wt)
    res = {"id": f"{pid}-{PREFIX}{mk[1:]}" if PREFIX else f"{pid}-{mk}", "property": pid, "ok": False}
    try:
        rc, out = sh(["git", "-C", REPO, "worktree", "add", "--detach", wt, "HEAD", "-q"])
        if rc:
            res["why"] = "worktree: " + out
            return res
        env = dict(os.environ, PYTHONPATH=os.path.join(wt, "src"), PYTHONDONTWRITEBYTECODE="1")
        demo = os.path.join(src, "demo.py")
        try:
            rc_clean, out_clean = sh([PY, demo], cwd=wt, env=env, timeout=120)
        except subprocess.TimeoutExpired:
            rc_clean, out_clean = 124, "timeout"
        if rc_clean != 0:
            res["why"] = f"demo fails on clean tree rc={rc_clean}: {out_clean[-400:]}"
            return res
        rc, out = sh(["git", "-C", wt, "apply", os.path.join(src, "patch.diff")])
        if rc:
            res["why"] = "patch does not apply: " + out
            return res
        rc_t, out_t = sh([PY, "-m", "pytest", "-q", "-p", "no:cacheprovider", "-x"], cwd=wt, env=env, timeout=300)
        last = out_t.strip().splitlines()[-1] if out_t.strip() else ""
        if rc_t != 0 or "276 passed" not in last:
            res["why"] = f"suite does not pass with the patch: {last}"
            return res
        try:
            rc_mut, out_mut = sh([PY, demo], cwd=wt, env=env, timeout=120)
        except subprocess.TimeoutExpired:
            rc_mut, out_mut = 124, "timeout"
        if rc_mut == 0:
            res["why"] = "demo passes with the patch applied"
            return res
        res.update(ok=True, suite=last, demo_clean_rc=rc_clean, demo_mutant_rc=rc_mut, demo_mutant_tail=out_mut[-300:])
        return res
    finally:
        sh(["git", "-C", REPO, "worktree", "remove", "--force", wt])
        shutil.rmtree(wt, ignore_errors=True)


def main():
    global PREFIX
    root = sys.argv[1]
    if "--prefix" in sys.argv:
        PREFIX = sys.argv[sys.argv.index("--prefix") + 1]
    only = [a for a in sys.argv[2:] if a.startswith("C")]
    jobs = []
    for pid in sorted(os.listdir(root)):
        out = os.path.join(root, pid, "_out")
        if not os.path.isdir(out) or (only and pid not in only):
            continue
        for mk in sorted(os.listdir(out)):
            src = os.path.join(out, mk)
            if os.path.isfile(os.path.join(src, "patch.diff")) and os.path.isfile(os.path.join(src, "demo.py")):
                jobs.append((pid, mk, src))
    head = subprocess.check_output(["git", "-C", REPO, "rev-parse", "--short", "HEAD"], text=True).strip()
    with cf.ThreadPoolExecutor(max_workers=8) as ex:
        results = list(ex.map(confirm, jobs))
    for (pid, mk, src), r in zip(jobs, results):
        print(r["id"], "KEPT" if r["ok"] else "REJECTED: " + r.get("why", ""))
        if not r["ok"]:
            continue
        dst = os.path.join(VERIF, "seeded", r["id"])
        os.makedirs(dst, exist_ok=True)
        for fn in ("patch.diff", "demo.py", "notes.md"):
            if os.path.exists(os.path.join(src, fn)):
                shutil.copy(os.path.join(src, fn), os.path.join(dst, fn))
        notes = open(os.path.join(src, "notes.md")).read() if os.path.exists(os.path.join(src, "notes.md")) else ""
        meta = {
            "id": r["id"],
            "breaks_property": pid,
            "base_commit": head,
            "needs_to_manifest": notes.strip()[:1500],
            "confirmed_by": "selftest/confirm_seeded.py in a scratch worktree of /repo (removed afterwards)",
            "ran": [
                "PYTHONPATH=<wt>/src /venv/bin/python demo.py  (clean tree) -> exit 0",
                "git apply patch.diff; /venv/bin/python -m pytest -q -p no:cacheprovider -> " + r["suite"],
                f"PYTHONPATH=<wt>/src /venv/bin/python demo.py  (patched) -> exit {r['demo_mutant_rc']}",
            ],
            "origin": "independent sub-agent given only the property text and its own worktree",
        }
        json.dump(meta, open(os.path.join(dst, "meta.json"), "w"), indent=1)


if __name__ == "__main__":
    main()
