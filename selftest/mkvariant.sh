#!/bin/sh
# mkvariant.sh <patch.diff> <dir>: scratch copy of /repo/src with the patch applied (remove it yourself)
set -e
rm -rf "$2"; mkdir -p "$2"; cp -r /repo/src "$2/src"; cd "$2"; patch -p1 -s -i "$1"
