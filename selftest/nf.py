#!/usr/bin/env python3
"""Print the normal form of functions: nf.py <repo-root> <qualname> ...   e.g. nf.py /repo _client.ncrypt_protect_secret"""
import ast
import os
import sys

sys.path.insert(0, os.path.dirname(os.path.dirname(os.path.abspath(__file__))))
from sa.load import Repo  # noqa: E402
from sa.normalize import normalize  # noqa: E402

repo = Repo(sys.argv[1])
normalize(repo)
for qual in sys.argv[2:]:
    print(ast.unparse(repo.func(qual).node))
    print()
