#!/usr/bin/env python3
"""False-alarm test: apply behaviour-preserving refactor patches (from sub-agents) to scratch copies of /repo/src,
confirm the unedited suite still passes on them, run every check, and report any exit != 0.

usage: try_refactors.py <root with Cxx/_out/rK/patch.diff> [--keep]   (--keep files confirmed variants under selftest/preserving)
"""
import concurrent.futures as cf
import os
import shutil
import subprocess
import sys
import tempfile

VERIF = os.path.dirname(os.path.dirname(os.path.abspath(__file__)))
REPO = "/repo"
PY = "/venv/bin/python"


def pids():
    return sorted(f[:-3].upper() for f in os.listdir(os.path.join(VERIF, "rules")) if f.startswith("c") and f[1:3].isdigit() and f.endswith(".py"))


def one(job):
    owner, rk, patch = job
    tmp = tempfile.mkdtemp(prefix=f"rf-{owner}-{rk}-", dir="/tmp")
    try:
        shutil.copytree(os.path.join(REPO, "src"), os.path.join(tmp, "src"))
        shutil.copytree(os.path.join(REPO, "tests"), os.path.join(tmp, "tests"))
        for fn in ("pyproject.toml",):
            shutil.copy(os.path.join(REPO, fn), os.path.join(tmp, fn))
        p = subprocess.run(["patch", "-p1", "-s", "-i", patch], cwd=tmp, capture_output=True, text=True)
        if p.returncode:
            return owner, rk, "patch-failed", {}
        env = dict(os.environ, PYTHONPATH=os.path.join(tmp, "src"), PYTHONDONTWRITEBYTECODE="1")
        import hashlib

        key = hashlib.sha256(open(patch, "rb").read() + HEAD.encode()).hexdigest()
        marker = os.path.join("/tmp", "rf-suite-ok", key)
        if not os.path.exists(marker):
            t = subprocess.run([PY, "-m", "pytest", "-q", "-p", "no:cacheprovider", "-x"], cwd=tmp, env=env, capture_output=True, text=True)
            last = (t.stdout.strip().splitlines() or [""])[-1]
            if t.returncode != 0 or "276 passed" not in last:
                return owner, rk, f"suite: {last}", {}
            os.makedirs(os.path.dirname(marker), exist_ok=True)
            open(marker, "w").close()
        res = {}
        for pid in (CHECKS or pids()):
            e2 = dict(os.environ, VERIF_REPLAY_DIR=os.path.join(tmp, "_replay"))
            c = subprocess.run([sys.executable, os.path.join(VERIF, "check"), pid, "--repo", tmp], capture_output=True, text=True, env=e2, cwd=VERIF)
            if c.returncode != 0:
                lines = [l for l in c.stdout.splitlines() if "[C" in l or l.startswith("ANALYSIS") or l.startswith("    ")]
                res[pid] = (c.returncode, lines[: (40 if VERBOSE else 4)])
        return owner, rk, "ok", res
    finally:
        shutil.rmtree(tmp, ignore_errors=True)


HEAD = subprocess.check_output(["git", "-C", REPO, "rev-parse", "HEAD"], text=True).strip()
CHECKS = []
VERBOSE = False
ONLY = []


def main():
    global CHECKS, VERBOSE, ONLY
    root = sys.argv[1]
    keep = "--keep" in sys.argv
    tag = sys.argv[sys.argv.index("--tag") + 1] if "--tag" in sys.argv else ""
    VERBOSE = "-v" in sys.argv
    if "--checks" in sys.argv:
        CHECKS = sys.argv[sys.argv.index("--checks") + 1].split(",")
    if "--only" in sys.argv:
        ONLY = sys.argv[sys.argv.index("--only") + 1].split(",")
    jobs = []
    if root == "--preserving":
        pv = os.path.join(VERIF, "selftest", "preserving")
        for fn in sorted(os.listdir(pv)):
            if fn.endswith(".diff"):
                name = fn[: -len(".diff")].split("__", 1)[1]
                owner, _, rk = name.rpartition("-")
                if not ONLY or name in ONLY or owner in ONLY:
                    jobs.append((owner, rk, os.path.join(pv, fn)))
        keep = False
    for owner in sorted(os.listdir(root)) if root != "--preserving" else []:
        out = os.path.join(root, owner, "_out")
        if not os.path.isdir(out):
            continue
        for rk in sorted(os.listdir(out)):
            p = os.path.join(out, rk, "patch.diff")
            if os.path.isfile(p) and os.path.getsize(p) > 0 and (not ONLY or f"{owner}-{rk}" in ONLY or owner in ONLY):
                jobs.append((owner, rk, p))
    with cf.ThreadPoolExecutor(max_workers=12) as ex:
        results = list(ex.map(one, jobs))
    alarms = 0
    for (owner, rk, patch), (_, _, status, res) in zip(jobs, results):
        if status != "ok":
            print(f"{owner}-{rk}: SKIPPED ({status})")
            continue
        if res:
            alarms += 1
            print(f"{owner}-{rk}: ALARM " + ", ".join(f"{p}(exit {rc})" for p, (rc, _) in res.items()))
            for p, (rc, lines) in res.items():
                for l in lines:
                    print("      ", p, l[:240])
        else:
            print(f"{owner}-{rk}: silent")
        if keep:
            dst = os.path.join(VERIF, "selftest", "preserving")
            os.makedirs(dst, exist_ok=True)
            shutil.copy(patch, os.path.join(dst, f"ALL__{tag}{owner}-{rk}.diff"))
            notes = os.path.join(os.path.dirname(patch), "notes.md")
            if os.path.exists(notes):
                shutil.copy(notes, os.path.join(dst, f"ALL__{tag}{owner}-{rk}.notes.md"))
    print(f"{alarms} variant(s) raised an alarm or analysis error out of {sum(1 for r in results if r[2] == 'ok')} confirmed")


if __name__ == "__main__":
    main()
