#!/usr/bin/env python3
"""Create the scratch worktrees and prompt files of one held-out round.

    make_round.py <root e.g. /tmp/r5> [--offset K]

10 'm' agents (breaking changes) and 10 'r' agents (behaviour-preserving refactorings); agent i gets the properties
C(i+1) and C((i+K) % 10 + 11).  Each agent sees only the property text and its own worktree of /repo."""
import json
import subprocess
import sys

root = sys.argv[1]
off = int(sys.argv[sys.argv.index("--offset") + 1]) if "--offset" in sys.argv else 3
props = [json.loads(l) for l in open("/verif/properties.jsonl")]


def text(p):
    return (f"ID: {p['id']}\nTitle: {p['title']}\nStatement: {p['statement']}\nquantifier: {json.dumps(p['quantifier'])}\n"
            f"why_tests_cant: {p['why_tests_cant']}\nanchors: {json.dumps(p['anchors'])}")


import os

TMPL = os.environ.get("ROUND_TMPL", "round5")  # ROUND_TMPL=round7 selects the modernisation-flavoured prompts
M = open(f"/verif/selftest/prompts/{TMPL}_mutants.tmpl").read()
R = open(f"/verif/selftest/prompts/{TMPL}_refactors.tmpl").read()
for i in range(10):
    a, b = props[i], props[10 + (i + off) % 10]
    for kind, tmpl in (("m", M), ("r", R)):
        wt = f"{root}/{kind}{i}"
        subprocess.run(["git", "-C", "/repo", "worktree", "add", "--detach", wt], check=True, capture_output=True)
        body = tmpl.replace("{WT}", wt).replace("{PROPS}", text(a) + "\n-----\n" + text(b))
        open(f"{root}/{kind}{i}.prompt.txt", "w").write(body)
        print(wt, a["id"], b["id"])
