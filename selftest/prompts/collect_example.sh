#!/bin/bash
rm -rf /tmp/r4c /tmp/r4r; mkdir -p /tmp/r4c /tmp/r4r
for d in /tmp/r4/m*/_out/C*/m*; do [ -f $d/patch.diff ] && [ -f $d/demo.py ] || continue; pid=$(basename $(dirname $d)); k=$(basename $d); mkdir -p /tmp/r4c/$pid/_out; cp -r $d /tmp/r4c/$pid/_out/$k; done
for d in /tmp/r4/r*/_out/C*/r*; do [ -f $d/patch.diff ] || continue; pid=$(basename $(dirname $d)); k=$(basename $d); mkdir -p /tmp/r4r/$pid/_out; cp -r $d /tmp/r4r/$pid/_out/$k; done
ls /tmp/r4c /tmp/r4r | tr '\n' ' '
