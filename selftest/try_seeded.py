#!/usr/bin/env python3
"""Run the static checks against seeded mutants on scratch copies of /repo/src.

usage: try_seeded.py [--all-checks] [ids...]      (default: every /verif/seeded/*)
Each mutant: copy /repo/src to a temp dir (outside /repo and /verif), apply patch.diff,
run ./check <property> --repo <tmp> (quiet), remove the copy.  Prints a matrix.
"""
import concurrent.futures as cf
import json
import os
import shutil
import subprocess
import sys
import tempfile

VERIF = os.path.dirname(os.path.dirname(os.path.abspath(__file__)))
REPO = os.environ.get("VERIF_REPO", "/repo")


def available():
    return sorted(f[:-3].upper() for f in os.listdir(os.path.join(VERIF, "rules")) if f.startswith("c") and f[1:3].isdigit() and f.endswith(".py"))


def run_checks(root, pids):
    out = {}
    for pid in pids:
        env = dict(os.environ, VERIF_REPLAY_DIR=os.path.join(root, "_replay"))
        p = subprocess.run([sys.executable, os.path.join(VERIF, "check"), pid, "--repo", root], capture_output=True, text=True, env=env, cwd=VERIF)
        lines = [l for l in p.stdout.splitlines() if l.startswith(("VIOLATION", "ANALYSIS-ERROR")) or "[C" in l]
        out[pid] = (p.returncode, lines)
    return out


def one(args):
    mid, pids = args
    src = os.path.join(VERIF, "seeded", mid)
    tmp = tempfile.mkdtemp(prefix=f"try-{mid}-", dir=os.environ.get("TMPDIR", "/tmp"))
    try:
        shutil.copytree(os.path.join(REPO, "src"), os.path.join(tmp, "src"))
        if mid.startswith("F-"):
            cmd = ["patch", "-R", "-p1", "-s", "-i", os.path.join(VERIF, "selftest", "defects", mid + ".diff")]
        else:
            cmd = ["patch", "-p1", "-s", "-i", os.path.join(src, "patch.diff")]
        p = subprocess.run(cmd, cwd=tmp, capture_output=True, text=True)
        if p.returncode:
            return mid, {"_": (99, ["patch failed: " + (p.stdout + p.stderr)[-200:]])}
        return mid, run_checks(tmp, pids)
    finally:
        shutil.rmtree(tmp, ignore_errors=True)


def main():
    args = sys.argv[1:]
    all_checks = "--all-checks" in args
    verbose = "-v" in args
    ids = [a for a in args if not a.startswith("-")]
    if not ids:
        ids = sorted(x for x in os.listdir(os.path.join(VERIF, "seeded")) if os.path.isdir(os.path.join(VERIF, "seeded", x)))
    else:
        ids = [m for m in sorted(os.listdir(os.path.join(VERIF, "seeded"))) if os.path.isdir(os.path.join(VERIF, "seeded", m)) and any(m.startswith(i) for i in ids)]
    avail = available()
    jobs = []
    if "--defects" in args:
        kf = json.load(open(os.path.join(VERIF, "known_findings.json")))
        for ent in kf["fixed"]:
            jobs.append((ent["tag"], [p for p in avail if p in ent["properties"]]))
        ids = []
    for mid in ids:
        meta = json.load(open(os.path.join(VERIF, "seeded", mid, "meta.json")))
        own = meta["breaks_property"]
        pids = avail if all_checks else [p for p in avail if p == own]
        jobs.append((mid, pids))
    with cf.ThreadPoolExecutor(max_workers=14) as ex:
        results = list(ex.map(one, jobs))
    caught = missed = 0
    for mid, res in results:
        own = mid.split("-")[0]
        fired = [p for p, (rc, _) in res.items() if rc == 1]
        if mid.startswith("F-"):
            own = fired[0] if fired else (next(iter(res)) if res else "?")
        errs = [p for p, (rc, _) in res.items() if rc not in (0, 1)]
        status = "CAUGHT" if own in fired else ("caught-by-other" if fired else ("ERROR" if errs else ("no-check" if own not in res else "MISSED")))
        if own in fired:
            caught += 1
        elif own in res:
            missed += 1
        print(f"{mid:10s} {status:16s} fired={','.join(fired) or '-'} errors={','.join(errs) or '-'}")
        if verbose or errs:
            for p, (rc, lines) in res.items():
                if rc != 0:
                    for l in lines[:6]:
                        print("      ", p, l[:260])
    print(f"caught {caught}, missed {missed} (of {len(results)} mutants; only properties with a rules module count)")


if __name__ == "__main__":
    main()
