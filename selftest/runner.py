"""Self-test of the checkers (thorough tier): the static rules are re-run on edited scratch copies of
/repo/src (never executed): every seeded mutant and every re-introduced historic defect of the property
must make the check exit 1, every behaviour-preserving variant must leave it at exit 0."""

from __future__ import annotations

import concurrent.futures as cf
import json
import os
import shutil
import subprocess
import sys
import tempfile
import typing as t

VERIF = os.path.dirname(os.path.dirname(os.path.abspath(__file__)))
REPO = os.environ.get("VERIF_REPO", "/repo")


def _run(pid: str, root: str) -> t.Tuple[int, str]:
    env = dict(os.environ, VERIF_REPLAY_DIR=os.path.join(root, "_replay"))
    p = subprocess.run([sys.executable, os.path.join(VERIF, "check"), pid, "--repo", root, "--tier", "quick"], capture_output=True, text=True, env=env, cwd=VERIF)
    lines = [l for l in p.stdout.splitlines() if l.startswith(("VIOLATION", "ANALYSIS-ERROR")) or "[C" in l]
    return p.returncode, " | ".join(lines[:2])[:300]


def _variant(args: t.Tuple[str, str, str, bool, int]) -> t.Dict[str, t.Any]:
    pid, name, patch, reverse, expect = args
    tmp = tempfile.mkdtemp(prefix=f"selftest-{pid}-", dir=os.environ.get("TMPDIR", "/tmp"))
    try:
        shutil.copytree(os.path.join(REPO, "src"), os.path.join(tmp, "src"))
        cmd = ["patch", "-p1", "-s", "-i", patch] + (["-R"] if reverse else [])
        p = subprocess.run(cmd, cwd=tmp, capture_output=True, text=True)
        if p.returncode:
            return {"variant": name, "ok": None, "skipped": "patch does not apply to the current tree (the construct changed)"}
        rc, out = _run(pid, tmp)
        return {"variant": name, "expected_exit": expect, "exit": rc, "ok": rc == expect, "report": out}
    finally:
        shutil.rmtree(tmp, ignore_errors=True)


def run_for(pid: str) -> t.Dict[str, t.Any]:
    jobs: t.List[t.Tuple[str, str, str, bool, int]] = []
    sd = os.path.join(VERIF, "seeded")
    for mid in sorted(os.listdir(sd)) if os.path.isdir(sd) else []:
        meta_p = os.path.join(sd, mid, "meta.json")
        if not os.path.exists(meta_p):
            continue
        meta = json.load(open(meta_p))
        if meta.get("breaks_property") == pid:
            jobs.append((pid, f"seeded/{mid}", os.path.join(sd, mid, "patch.diff"), False, 1))
    kf = json.load(open(os.path.join(VERIF, "known_findings.json")))
    for ent in kf.get("fixed", []):
        if pid in ent.get("properties", []):
            jobs.append((pid, f"defect/{ent['tag']}", os.path.join(VERIF, "selftest", "defects", ent["tag"] + ".diff"), True, 1))
    pv = os.path.join(VERIF, "selftest", "preserving")
    for fn in sorted(os.listdir(pv)) if os.path.isdir(pv) else []:
        if fn.endswith(".diff"):
            props = fn.split("__")[0].split("-")
            if pid in props or "ALL" in props:
                jobs.append((pid, f"preserving/{fn}", os.path.join(pv, fn), False, 0))
    with cf.ThreadPoolExecutor(max_workers=min(16, max(1, len(jobs)))) as ex:
        results = list(ex.map(_variant, jobs))
    failures = [f"{r['variant']}: expected exit {r['expected_exit']}, got {r['exit']} ({r.get('report', '')})" for r in results if r.get("ok") is False]
    return {
        "variants": len(results),
        "breaking_fired": sum(1 for r in results if r.get("ok") and r.get("expected_exit") == 1),
        "preserving_silent": sum(1 for r in results if r.get("ok") and r.get("expected_exit") == 0),
        "skipped": [r["variant"] for r in results if r.get("ok") is None],
        "results": results,
        "failures": failures,
        "note": "variants are analysed statically on scratch copies; nothing is executed",
    }
