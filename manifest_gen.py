#!/usr/bin/env python3
"""Regenerates MANIFEST.json from the per-property claim table below and the rules/ directory.
A property is claimed only if rules/cXX.py exists; all others are listed under not_applicable."""
import json
import os

HERE = os.path.dirname(os.path.abspath(__file__))

CLAIMS = {
    "C11": dict(
        technique="static analysis: abstract interpretation of pack()/unpack() into symbolic layout tables; table agreement + reference tables",
        text="Decides for all field values and lengths (symbolic offsets): writer table = reader table for the 7 MS-GKDI codecs, writer tables = reference tables transcribed from MS-GKDI/NDR64, GetKey reply offsets, and that exactly the reply's own auth padding is cut. Does not decide: semantics of int.to_bytes/from_bytes and the utf-16 codec.",
        note="Trusted base: Python int.to_bytes/from_bytes, slicing and bytes.join semantics; the reference tables in rules/c11.py transcribed by hand from MS-GKDI 2.2.1-2.2.4 and 3.1.4.1.",
        ref="DESIGN.md section 5 / C11",
    ),
}

NA_REASON = "check not built yet in this session (design in DESIGN.md section 5); not claimed until its engine passes the self-test"


def main() -> None:
    props = [json.loads(l) for l in open(os.path.join(HERE, "properties.jsonl"))]
    checks, na = [], []
    for p in props:
        pid = p["id"]
        have = os.path.exists(os.path.join(HERE, "rules", f"{pid.lower()}.py")) and pid in CLAIMS
        if not have:
            na.append({"property_id": pid, "reason": NA.get(pid, NA_REASON)})
            continue
        c = CLAIMS[pid]
        checks.append(
            {
                "property_id": pid,
                "quick_cmd": f"./check {pid} --tier quick",
                "thorough_cmd": f"./check {pid} --tier thorough",
                "evidence_file": f"/verif/evidence/{pid}.json",
                "replay_cmd_template": "./check --replay {path}",
                "engine": "sa",
                "level_claimed": {"category": "other", "text": c["text"], "design_ref": c["ref"]},
                "level_note": c["note"],
                "technique": c["technique"],
            }
        )
    m = {
        "version": 1,
        "setup_cmd": "./check --setup",
        "hooks": {
            "guard": "DPAPI_NG_VERIF",
            "enable": "no source hooks: the checks read /repo/src/dpapi_ng with ast and never import or run it",
            "baseline_off_cmd": "cd /repo && /venv/bin/python -m pytest -ra -q -p no:cacheprovider --timeout=900 --continue-on-collection-errors",
            "source_commits": [],
            "add_only": True,
        },
        "engines": [
            {
                "name": "sa",
                "path": "/verif/sa",
                "serves_properties": [c["property_id"] for c in checks],
                "kind_free_text": "repository specific static analysis library on Python ast: source model + constant folder, CFG/dominators/path enumeration, symbolic layout interpreter, table agreement, reference tables",
            }
        ],
        "checks": checks,
        "not_applicable": na,
        "notes": "Every check is static analysis of /repo's current sources (exit 0 ok / 1 VIOLATION / 2 ANALYSIS-ERROR). 15 genuine defects were repaired by 'fix:' commits in /repo and are listed in known_findings.json as fixed entries.",
    }
    json.dump(m, open(os.path.join(HERE, "MANIFEST.json"), "w"), indent=1)
    print(f"{len(checks)} claimed, {len(na)} not applicable")


NA: dict = {}

if __name__ == "__main__":
    main()
