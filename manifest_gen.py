#!/usr/bin/env python3
"""Regenerates MANIFEST.json from the per-property claim table below and the rules/ directory.
A property is claimed only if rules/cXX.py exists; all others are listed under not_applicable."""
import json
import os

HERE = os.path.dirname(os.path.abspath(__file__))

CLAIMS = {
    "C11": dict(
        technique="static analysis: abstract interpretation of pack()/unpack() into symbolic layout tables; table agreement + reference tables",
        text="Decides for all field values and lengths (symbolic offsets): writer table = reader table for the 7 MS-GKDI codecs, every raising path of a decoder is decided by a literal mismatch, an unknown code or a size test (never by a decoded field value pack() can emit), writer tables = reference tables transcribed from MS-GKDI/NDR64, GetKey reply offsets, and that exactly the reply's own auth padding is cut. Does not decide: semantics of int.to_bytes/from_bytes and the utf-16 codec.",
        note="Trusted base: Python int.to_bytes/from_bytes, slicing and bytes.join semantics; the reference tables in rules/c11.py transcribed by hand from MS-GKDI 2.2.1-2.2.4 and 3.1.4.1.",
        ref="DESIGN.md section 5 / C11",
    ),
    "C12": dict(
        technique="static analysis: symbolic layout tables (writer = reader = reference), loop-variant certificates with interval analysis, finite flag truth table",
        text="Decides for all values and lengths: writer table = reader table for the 26 binary codecs of _rpc/_epm incl. bit fields, padding residues, repeated elements and PDU framing; writer tables = reference tables from C706/MS-RPCE; every decoder loop has a termination/bounded-work certificate; registries complete; codec functions write no shared container (no memo can answer a later input with an earlier result); open enums keep their value; the verification-trailer loop ends exactly on the END bit. Does not decide: work proportional to length as a measured quantity.",
        note="Trusted base: Python int.to_bytes/from_bytes/slicing semantics; reference tables in rules/c12.py transcribed by hand from C706 ch.12-13/app. L and MS-RPCE.",
        ref="DESIGN.md section 5 / C12",
    ),
    "C14": dict(
        technique="static analysis: transport-read discipline (read-exact typestate), loop certificates, CFG path enumeration for EOF exits, symbolic buffer coverage",
        text="Decides for every segmentation/EOF point (it is a property of every read site, not of a schedule): each transport read is readexactly or sits in a certified read-until-full loop whose EOF branch raises and whose only normal exit is 'buffer full'; the decoded header buffer is exactly the header size and complete; the frag_len reply buffer is covered exactly by header copy + complete body read; both transports hand the same tuple to _process_response. Does not decide: promptness as a time bound.",
        note="Trusted summaries: socket.recv_into returns 0 only at EOF else >= 1; StreamReader.readexactly returns exactly n bytes or raises.",
        ref="DESIGN.md section 5 / C14",
    ),
    "C18": dict(
        technique="static analysis: loop certificates + interval analysis, layout tables vs NDR64 reference, CFG guards/dominance and cycle test for first-match selection",
        text="Decides: every ept_map decoder loop is bounded (tower count tied to the reply size by a dominating guard; floor count <= 65535); EptMap/EptMapResult/Floor/typed-floor writer = reader tables and NDR64 tower alignment; the status test guards every tower use, the first TCP floor in reply order is returned, no fall-through; TCP floor = protocol 0x07, 2-byte big-endian port. Does not decide: time/memory as measured quantities.",
        note="Trusted base: Python slicing semantics; NDR64/tower layout transcribed from C706 appendix L and MS-RPCE 2.2.1.2.5.",
        ref="DESIGN.md section 5 / C18",
    ),
    "C13": dict(
        technique="static analysis: symbolic evaluation of the framing code over linear length expressions; cross-module layout constants derived from extracted codec tables",
        text="Decides symbolically in the stub length: literal offsets (24, view[8:10], +8) equal the table-derived offsets; verification trailer after (-len) mod 4 zeros, auth padding (-len) mod 16 computed after it and equal to the get_empty_trailer argument; auth_len, alloc_hint, frag_len patch; wrap/unwrap receive exactly header [0:o0], body [o0:o1], trailer [o1:o1+8] (+signature) and the provider's IOV marks header/trailer sign_only|data_readonly with encrypt=True; exactly pad_length reply bytes are cut. Does not decide: what the security context does with the buffers.",
        note="Trusted base: Python slicing/bytes semantics; E4 layout tables of Request/Response/PDUHeader/SecTrailer.",
        ref="DESIGN.md section 5 / C13",
    ),
    "C16": dict(
        technique="static analysis: CFG path enumeration over truth values of atomic conditions (must-pass-through), symbolic window arguments, dominance of the security-context call",
        text="Decides: every path of _process_response that returns a PDU on an authenticated call with a sealed request passes through unwrap and stores its result before parsing; unwrap gets exactly the raw wire windows and the negotiated sign_header; the provider verifies on every return path with header/trailer as sign_only|data_readonly; both trailers are PKT_PRIVACY and wrap encrypts; request() returns the post-unwrap PDU in both transports; the buffer handed to _process_response is the received header bytes followed by the completely received body in both transports (what is verified is what arrived); no handler swallows failures. Does not decide: replay protection / cryptographic strength inside spnego.",
        note="Trusted: spnego unwrap_iov raises on a bad signature; Python slicing semantics.",
        ref="DESIGN.md section 5 / C16",
    ),
    "C09": dict(
        technique="static analysis: interval analysis of true divisions, formula canonicalisation with constant folding, reaching definitions",
        text="Decides: no true division downstream of the clock has integer operands outside +-2^53; L0/L1/L2 normalise to floor(t/D) [mod M] with the MS-GKDI constants and t = time_ns()//100 + 116444736000000000; one clock read feeds all three; those definitions are the cache-lookup arguments, the compute_l2_key targets and the fields of every returned envelope. Does not decide: that the OS clock is right.",
        note="Trusted: time.time_ns(); Python int arithmetic exact, float division IEEE-754.",
        ref="DESIGN.md section 5 / C09",
    ),
    "C15": dict(
        technique="static analysis: reaching definitions + dominators/guards on the bind() twins, symbolic evaluation of PDU constructors, who-may-write rule, CFG path enumeration",
        text="Decides the structural rules that make the relay faithful for any peer: first step() trailer goes out in Bind; each later step() result reaches _create_alter_context -> _send_pdu unless its token is empty; the token fed to a step is the one taken from the previous reply; steps only run while the context is incomplete; alter_context carries only accepted contexts; auth_len / header-sign flag construction; _sign_header write discipline; requests only after _process_bind_result accepted that context (tested on the result field); BindNak/Fault/unexpected types raise. Does not decide: enumeration of peer scripts.",
        note="Trusted: spnego step()/complete semantics.",
        ref="DESIGN.md section 5 / C15",
    ),
    "C19": dict(
        technique="static analysis: interprocedural provenance (reaching definitions through helpers) of key/nonce sinks to OS entropy calls; decorator/global-state rules; constant folding of sizes",
        text="Decides: CEK, GCM nonce, nonce-mode key_info and ephemeral private key each originate on every path from os.urandom/AESGCM.generate_key evaluated during the protect call (not a parameter, module state, cached or stateful helper), with sizes 256 bit / 12 / 32 / ceil(private_key_length/8); no PRNG module; the wrapped CEK is the encrypting CEK and the public key belongs to the fresh private key. Does not decide: statistical distinctness itself.",
        note="Trusted: os.urandom / AESGCM.generate_key return fresh OS entropy.",
        ref="DESIGN.md section 5 / C19",
    ),
    "C20": dict(
        technique="static analysis: string-domain evaluation of the query name over domain given/absent, sort-specification normalisation / sign-vector truth table of scan predicates, twin diff, guards",
        text="Decides: both lookups query exactly '_ldap._tcp.dc._msdcs'(+'.'+domain iff given) as SRV with search=True; selection = priority ascending then weight descending, first; target text with trailing dot stripped and port/weight/priority copied, no record can replace another before ranking (keyed collections only by position); API functions look up only when no server is given and use the record's target; sync = async. Does not decide: dnspython's search-list semantics.",
        note="Trusted: dnspython resolve(); Python sorted().",
        ref="DESIGN.md section 5 / C20",
    ),
    "C02": dict(
        technique="static analysis: loop-variant certificates on interval analysis, order tables (sign-vector truth tables, finite index domain for arithmetic guards), recipe-shape rules with reaching definitions, layout table of the KDF context",
        text="Decides: both chain walks terminate within 31 KDF steps each; a raise is taken exactly when the seed position is <lex the requested one; the recipe shape of compute_l1_key/compute_l2_key (label, length 64, context constants, decrement-before-derive, same-level chaining, reseed at 31 from the L1 key, RKID||L0||L1||L2 as 4-byte LE signed, SP800-108 parameters); envelope conventions (pre-decrement, reseed) as truth tables; the cache's cover test. Does not decide: equality of the derived bytes with the MS-GKDI chain.",
        note="Trusted: cryptography's KBKDFHMAC; the MS-GKDI 3.1.4.1.2 recipe transcribed in rules/c02.py.",
        ref="DESIGN.md section 5 / C02",
    ),
    "C10": dict(
        technique="static analysis: order tables for the cover/store predicates, provenance of every _get_key return, CFG guards for RPC/store discipline, twin diff, no-suspension-point rule; plus C02's termination obligations",
        text="Decides the invariant each cache operation preserves: stored envelope returned iff >=lex the request; every other non-None return is the fresh (31,31) root-key envelope, which is what gets stored; _store_key overwrites iff no entry or >lex; RPC only on a miss for the same key, store guarded by 'not public key' on every path, sync/async twins; KeyCache methods cannot suspend; derivation from the cached envelope terminates. Does not decide: value-level transparency over whole histories; OS threads.",
        note="Trusted: C02 obligations; asyncio's no-preemption-between-awaits.",
        ref="DESIGN.md section 5 / C10",
    ),
    "C08": dict(
        technique="static analysis: regex syntax-tree rules (re._parser), interval analysis seeded by the grammar's digit bounds, symbolic layout tables of ACE/ACL/SD vs MS-DTYP reference, constant folding of the target SD",
        text="Decides: the SID grammar is anchored at both absolute ends, ASCII-digit only, S-<digit>-<digits>(-<digits>){1,15}; on every path revision/count fit a byte, authority < 2^48, sub authorities < 2^32, every to_bytes within capacity, rejections are ValueError; SID/ACE/ACL/self-relative SD layouts equal the MS-DTYP reference with offsets = actual positions and order Sacl, Dacl, Owner, Group; target SD constants. Does not decide: injectivity / agreement with an independent parser as numerical facts.",
        note="Trusted: Python re semantics for the constructs found; MS-DTYP tables transcribed in rules/c08.py.",
        ref="DESIGN.md section 5 / C08",
    ),
    "C17": dict(
        technique="static analysis: twin normalisation/diff of the sync and async flavours, role-position checks, constant folding of conversation constants against reference UUIDs, plus shared layout/relay/sealing obligations",
        text="Decides: sync/async twins (GetKey conversation, bind, request, API pairs, signatures); unprotect requests exactly the blob's (root key id, L0, L1, L2) with the SD from its descriptor, protect requests (-1,-1,-1) with the caller's root key id, GetKey receives them in role-correct positions and serialises per the NDR64 reference; conversation constants (EPM leg unauthenticated opnum 3 with the ISD_KEY tower, second leg on the mapped port with contexts {0: ISD_KEY/NDR64, 1: bind-time features}, GetKey opnum 0 with the PCONTEXT|END verification trailer); PKT_PRIVACY sealing, reply trimming, alter_context contexts. Does not decide: that results decrypt correctly for every key position.",
        note="Trusted: UUID/version constants transcribed from MS-GKDI 1.9, C706, MS-RPCE.",
        ref="DESIGN.md section 5 / C17",
    ),
    "C05": dict(
        technique="static analysis: region call graph, may-raise rules per primitive (dominating guards, interval proofs seeded by wire widths and the SID grammar, length summaries), loop certificates, recursion check",
        text="Decides for the call-graph closure of unprotect up to DC lookup/RPC: every explicit raise is a deliberate type; every index/struct.unpack/Struct.unpack_from/to_bytes/dict-subscript/datetime-construction site is proven safe by a dominating guard, a value-range proof or a length summary; every loop has a termination/bounded-work certificate (KDF walks <= 31 steps); no recursion; no swallowing handler. Does not decide: promptness in seconds; internals of third-party leaves beyond the stated summaries.",
        note="Trusted: the external-leaf exception summary listed in the evidence; slices/int.from_bytes/len never raise.",
        ref="DESIGN.md section 5 / C05",
    ),
    "C06": dict(
        technique="static analysis: ASN.1 TLV shape tables (writer vs reader) extracted from the ASN1Writer/ASN1Reader idiom, constant folding against an RFC 5652/5084 reference table, provenance of raw insertions, layout-duality rules",
        text="Decides: for the 7 CMS classes and ProtectionDescriptor the written TLV shape equals the read shape (types, tags, constructed bits, optionals, nesting, field correspondence) and no decoded field is altered afterwards; KeyIdentifier table agreement + reference; emitted constants = validated constants = reference (versions 2/4, one KEK recipient [2], OIDs, GCM parameters SEQUENCE{OCTET STRING, INTEGER 16}); DER discipline of the TLV writer; both blob layouts. Does not decide: acceptance by an external strict parser for all values.",
        note="Trusted: reference constants transcribed from RFC 5652/5084 and a Windows blob; C07 obligations.",
        ref="DESIGN.md section 5 / C06",
    ),
    "C07": dict(
        technique="static analysis: reaching definitions for exact consumption, symbolic read table of the header decoder, writer/reader constant pairing, loop certificates and interval sinks for the digit loops, dominating non-empty guards",
        text="Decides: each read_* advances by exactly its helper's consumed count, helpers return _validate_tag's count, _validate_tag returns (content, header+content) and raises on short input; identifier/length octet tables agree (masks, thresholds 31/128, long-form octets read right after the identifier octets, minimal big-endian lengths, indefinite form rejected); default universal tags pair up; digit loops are certified with byte stores in [0,255] and no read of empty content; nested writer discipline. Does not decide: minimality/value round trip of INTEGER and OID encodings for all values.",
        note="Trusted: Python int.from_bytes/to_bytes, slicing, struct.unpack('B'); X.690 8.1 rules transcribed in rules/c07.py.",
        ref="DESIGN.md section 5 / C07",
    ),
    "C01": dict(
        technique="static analysis: encrypt/decrypt duality by argument provenance (reaching definitions), dual-primitive tables, role-by-role copies, twin diff; composes the C02/C03/C06/C09/C10 obligations the statement depends on",
        text="Decides the duality obligations necessary for the round trip: every emitted algorithm OID has a decrypt branch calling the dual primitive with key/nonce/AAD of equal provenance; the algorithm and parameter definitions used to encrypt are the ones stored in the blob, the nonce in the GCM parameters is the one generated with the CEK, the wrapped CEK is the encrypting CEK; key position derived = stored = copied into the identifier; both blob layouts are dual; cache store keeps covering material; async = sync; plus the KEK duality (C03) and derivation conventions (C02). Does not decide: the equality unprotect(protect(x)) = x itself.",
        note="Trusted: cryptography's wrap/unwrap and AES-GCM encrypt/decrypt are inverse for equal key, nonce, AAD.",
        ref="DESIGN.md section 5 / C01",
    ),
    "C03": dict(
        technique="static analysis: pairwise argument provenance of the KDF / compute_kek calls on the two sides, recipe-shape rules for DH/ECDH/concat-KDF, layout tables for fixed-width big-endian packing",
        text="Decides that both sides are one computation on dual inputs: nonce-mode kdf calls have pairwise equal arguments; public-key mode reaches one compute_kek with equal parameters, the private key length expression is the same on both sides, pow/ECDH use the unreduced big-endian private key, SP800-56A concat KDF and final KDF parameters are as specified; every group element / coordinate / shared secret is packed big-endian at key_length, never at a value-derived width. Does not decide: equality with an independent implementation's bytes.",
        note="Trusted: cryptography's KBKDFHMAC/ConcatKDFHash/ECDH, Python pow(); recipe transcribed in rules/c03.py.",
        ref="DESIGN.md section 5 / C03",
    ),
    "C04": dict(
        technique="static analysis: provenance of the data handed to AESGCM.decrypt / aes_key_unwrap, single-verified-path rule on returns, use-of-every-identifier-field rule, handler scan over the decrypt region",
        text="Decides: the whole enc_content / enc_cek reach the one-shot AEAD / key-unwrap primitives with no slicing and no second decryption path; every return of the unprotect functions, _decrypt_blob and content_decrypt is that verified result; no handler in the decrypt region continues after a failure; every key-identifier field and the protection descriptor is used on the path producing the KEK and the nonce comes from the blob's parameters. Does not decide: cryptographic strength; bit-level coverage.",
        note="Trusted: AESGCM.decrypt raises InvalidTag unless the tag verifies; aes_key_unwrap raises InvalidUnwrap.",
        ref="DESIGN.md section 5 / C04",
    ),
}

NA_REASON = "check not built yet in this session (design in DESIGN.md section 5); not claimed until its engine passes the self-test"


def main() -> None:
    props = [json.loads(l) for l in open(os.path.join(HERE, "properties.jsonl"))]
    checks, na = [], []
    for p in props:
        pid = p["id"]
        have = os.path.exists(os.path.join(HERE, "rules", f"{pid.lower()}.py")) and pid in CLAIMS
        if not have:
            na.append({"property_id": pid, "reason": NA.get(pid, NA_REASON)})
            continue
        c = CLAIMS[pid]
        checks.append(
            {
                "property_id": pid,
                "quick_cmd": f"./check {pid} --tier quick",
                "thorough_cmd": f"./check {pid} --tier thorough",
                "evidence_file": f"/verif/evidence/{pid}.json",
                "replay_cmd_template": "./check --replay {path}",
                "engine": "sa",
                "level_claimed": {"category": "other", "text": c["text"], "design_ref": c["ref"]},
                "level_note": c["note"],
                "technique": c["technique"],
            }
        )
    m = {
        "version": 1,
        "setup_cmd": "./check --setup",
        "hooks": {
            "guard": "DPAPI_NG_VERIF",
            "enable": "no source hooks: the checks read /repo/src/dpapi_ng with ast and never import or run it",
            "baseline_off_cmd": "cd /repo && /venv/bin/python -m pytest -ra -q -p no:cacheprovider --timeout=900 --continue-on-collection-errors",
            "source_commits": [],
            "add_only": True,
        },
        "engines": [
            {
                "name": "sa",
                "path": "/verif/sa",
                "serves_properties": [c["property_id"] for c in checks],
                "kind_free_text": "repository specific static analysis library on Python ast: source model + constant folder, CFG/dominators/path enumeration, symbolic layout interpreter, table agreement, reference tables",
            }
        ],
        "checks": checks,
        "not_applicable": na,
        "notes": "Every check is static analysis of /repo's current sources (exit 0 ok / 1 VIOLATION / 2 ANALYSIS-ERROR). 15 genuine defects were repaired by 'fix:' commits in /repo and are listed in known_findings.json as fixed entries.",
    }
    json.dump(m, open(os.path.join(HERE, "MANIFEST.json"), "w"), indent=1)
    print(f"{len(checks)} claimed, {len(na)} not applicable")


NA: dict = {}

if __name__ == "__main__":
    main()
